import torch, warnings, copy, io
warnings.simplefilter('ignore')
from optimum.quanto import *
torch.manual_seed(0)
def attempt(name, f):
    try:
        r = f(); print(name, 'OK', r if r is not None else '')
    except Exception as e:
        print(name, 'RAISED', type(e).__name__, str(e)[:150])
# LayerNorm without affine
def ln_noaffine():
    m = torch.nn.Sequential(torch.nn.Linear(8,8), torch.nn.LayerNorm(8, elementwise_affine=False))
    quantize(m, weights=qint8, activations=qint8); return type(m[1]).__name__
attempt('LN no affine', ln_noaffine)
def ln_nobias():
    m = torch.nn.Sequential(torch.nn.Linear(8,8), torch.nn.LayerNorm(8, bias=False))
    quantize(m, weights=qint8, activations=qint8); m(torch.randn(2,8)); return type(m[1]).__name__, list(m.state_dict().keys())
attempt('LN no bias', ln_nobias)
# conv circular
def conv(padding_mode, act, **kw):
    m = torch.nn.Sequential(torch.nn.Conv2d(4, 6, 3, padding=1, padding_mode=padding_mode, **kw))
    quantize(m, weights=qint8, activations=act)
    x = torch.randn(2,4,8,8)
    with Calibration(): m(x)
    out = m(x); return type(out).__name__, tuple(out.shape)
for pm in ('zeros','reflect','replicate','circular'):
    attempt('conv '+pm+' act', lambda: conv(pm, qint8))
    attempt('conv '+pm+' noact', lambda: conv(pm, None))
attempt('conv groups dil', lambda: conv('zeros', qint8, groups=2, dilation=2))
def conv_same():
    m = torch.nn.Sequential(torch.nn.Conv2d(4, 6, 3, padding='same', stride=1))
    quantize(m, weights=qint4, activations=qfloat8); x = torch.randn(2,4,8,8)
    out = m(x); return type(out).__name__, tuple(out.shape), m[0].weight_group_size
attempt('conv same', conv_same)
# requantize unfrozen int4 with group
def req(frozen, wq, act, ln=False, din=256):
    layers = [torch.nn.Linear(din, 16), torch.nn.ReLU()] + ([torch.nn.LayerNorm(16)] if ln else []) + [torch.nn.Linear(16, 4)]
    m = torch.nn.Sequential(*layers)
    quantize(m, weights=wq, activations=act)
    x = torch.randn(3, din)
    if act is not None:
        with Calibration(): m(x)
    if frozen: freeze(m)
    sd = m.state_dict()
    b = io.BytesIO(); torch.save(sd, b); b.seek(0); sd2 = torch.load(b, weights_only=True)
    m2 = torch.nn.Sequential(*[copy.deepcopy(l) if not isinstance(l, QModuleMixin) else type(l).__bases__[1](*( (l.in_features, l.out_features) if hasattr(l,'in_features') else (l.normalized_shape,))) for l in m])
    requantize(m2, sd2)
    o1 = m(x); o2 = m2(x)
    o1 = o1.dequantize() if isinstance(o1, QTensor) else o1; o2 = o2.dequantize() if isinstance(o2, QTensor) else o2
    return 'equal' if torch.equal(o1, o2) else 'DIFF %g'%(o1-o2).abs().max(), m[0].weight_group_size, m2[0].weight_group_size
for frozen in (True, False):
    for wq in (qint8, qint4):
        for act in (None, qint8):
            attempt(f'requantize frozen={frozen} {wq.name} act={act.name if act else None}', lambda: req(frozen, wq, act))
attempt('requantize LN', lambda: req(True, qint8, qint8, ln=True))
