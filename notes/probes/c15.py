import torch, warnings, sys
warnings.simplefilter('ignore')
sys.path.insert(0, '/repo/external/awq')
from optimum.quanto import *
from optimum.quanto.tensor.qbits.awq.packed import pack, unpack, pack_v2, unpack_v2
from optimum.quanto.tensor.qbits.awq.qbits import AWQBitsTensor
from pack_intweight import pack_intweight
from packing_utils import pack_awq, unpack_awq, reverse_awq_order
torch.manual_seed(0)
for (N,K) in ((4,64),(8,128),(12,192),(4,256)):
    t = torch.randint(0,16,(N,K),dtype=torch.uint8)
    p2 = pack_v2(t); ref = pack_intweight(t.to(torch.int32), interleave=4, kstride=64)
    print(N,K,'v2 == ref', torch.equal(p2, ref), 'roundtrip', torch.equal(unpack_v2(p2), t), p2.shape, p2.dtype)
    for reorder in (False, True):
        p1 = pack(t, reorder); print('  v1 reorder', reorder, 'rt', torch.equal(unpack(p1, reorder).to(torch.uint8), t), 'ref', torch.equal(p1, pack_awq(t.to(torch.int32), reorder)))
# AWQBitsTensor equivalence
w = torch.randn(8, 256).to(torch.float16)
q = quantize_weight(w, qint4, 0, 128)
print(type(q).__name__, q._data.unpack().shape, q._scale.shape, q._zeropoint.shape)
a = AWQBitsTensor(qint4, 0, 128, q.size(), q.stride(), q._data.unpack(), q._scale, q._zeropoint)
print('deq diff', (a.dequantize().float()-q.dequantize().float()).abs().max().item(), a._scale.shape, a._zeropoint.dtype)
b = a.qbits_tensor()
print(type(b).__name__, b._data.unpack().shape, b._zeropoint.dtype, b._scale.shape)
try:
    print('back deq diff', (b.dequantize().float()-q.dequantize().float()).abs().max().item())
    print('codes equal', torch.equal(b._data.unpack(), q._data.unpack()), 'zp equal', torch.equal(b._zeropoint, q._zeropoint), 'scale equal', torch.equal(b._scale, q._scale))
except Exception as e: print('RAISED', type(e).__name__, e)
