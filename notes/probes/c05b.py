import torch, warnings
warnings.simplefilter('ignore')
from optimum.quanto import *
torch.manual_seed(0)
t = torch.tensor([[-3., -1., 0.5, 2.],[1., -0.2, 0.3, -2.5]])
q = quantize_activation(t, qint8, torch.tensor(1/127.))
print('codes', q._data)
print('neg', (-q).dequantize(), (-(q.dequantize())))
m = q * -1.0
print('relu(neg scale)', torch.relu(m).dequantize(), torch.relu(m.dequantize()))
m2 = quantize_activation(t*0.5, qint8, torch.tensor(1/127.)) * -1.0
print('lt neg scale', m < m2, m.dequantize() < m2.dequantize())
z = q * 0.0
print('where zero scale', torch.where(torch.tensor([[True, False, True, False]]), z, torch.tensor(5.0)).dequantize())
# float8 neg
f = quantize_activation(t, qfloat8_e4m3fn, torch.tensor(0.01))
print('f8 codes', f._data.to(torch.float32))
print('f8 neg', (-f))
# per-axis t then mm
w = quantize_weight(torch.randn(4,6), qint8, 0)
wt = w.t()
print(type(wt).__name__, wt.axis, wt._scale.shape, wt._data.shape, wt.shape, wt.stride(), wt._data.stride())
x = quantize_activation(torch.randn(3,4), qint8, torch.tensor(0.03))
print('mm diff', (torch.mm(x, w) - torch.mm(x.dequantize(), w.dequantize())).abs().max())
print('matmul w.t', (torch.matmul(torch.randn(3,6), wt) ).shape)
# 3D transpose then matmul
a = quantize_activation(torch.randn(2,3,4), qint8, torch.tensor(0.03)); b = quantize_activation(torch.randn(2,5,4), qint8, torch.tensor(0.02))
r = torch.matmul(a, b.transpose(1,2)); ref = torch.matmul(a.dequantize(), b.dequantize().transpose(1,2))
print('bmm', type(r).__name__, (r-ref).abs().max())
# softmax bf16
s = quantize_activation(torch.randn(4,8).to(torch.bfloat16), qint8, torch.tensor(0.03, dtype=torch.bfloat16))
sm = torch.softmax(s, -1); print(sm._scale, sm._scale.dtype, (sm.dequantize().float()-torch.softmax(s.dequantize(), -1).float()).abs().max(), 1/127)
sf = quantize_activation(torch.randn(4,8), qfloat8_e4m3fn, torch.tensor(0.03))
sm = torch.softmax(sf, -1); print(sm._scale, (sm.dequantize()-torch.softmax(sf.dequantize(), -1)).abs().max())
# clone of transposed
c = a.transpose(0,2); cc = c.clone(); print(c.shape, c.stride(), cc.shape, cc.stride(), cc._data.stride(), torch.equal(cc.dequantize(), c.dequantize()))
cc = c.contiguous(); print(type(cc).__name__, cc.stride(), cc._data.stride())
# expand then clone
e = a.unsqueeze(0).expand(3,-1,-1,-1); print(e.stride(), e.clone().stride())
# to meta
print(a.to('meta').shape, type(a.to('meta')).__name__)
# deepcopy
import copy
print(type(copy.deepcopy(a)).__name__, type(copy.deepcopy(w)).__name__)
# requires_grad param
p = torch.nn.Parameter(w); print(type(p), type(p.data), p.requires_grad)
# pickle
import io
buf = io.BytesIO()
try:
    torch.save(a, buf); print('saved')
    buf.seek(0); print(type(torch.load(buf, weights_only=False)))
except Exception as ex: print('save/load ERR', type(ex).__name__, str(ex)[:200])
