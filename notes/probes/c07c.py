import torch, sys
r,i,o = map(int, sys.argv[1:4])
torch.manual_seed(0)
x = torch.randn(r,i).to(torch.bfloat16); w = torch.randint(-127,127,(o,i),dtype=torch.int8); s = torch.rand(o).to(torch.bfloat16)
out = torch._weight_int8pack_mm(x, w, s)
ref = (x.double() @ w.double().t()) * s.double()
print('ok', ((out.double()-ref).abs()/(ref.abs()+1e-3)).max().item())
