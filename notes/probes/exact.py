import torch, warnings, time
warnings.simplefilter('ignore')
from optimum.quanto import *
from optimum.quanto.tensor.quantizers import SymmetricQuantizer, AffineQuantizer
from optimum.quanto.library import qbytes_mm as Q
torch.manual_seed(0)
P = {torch.float32: 24, torch.float16: 11, torch.bfloat16: 8}
g = torch.Generator().manual_seed(1)
def sparse_codes(shape, budget_per_row, lo, hi):
    # integer codes, mostly zero, so that sum|x||w| stays small
    t = torch.zeros(shape, dtype=torch.float64)
    rows = t.reshape(-1, shape[-1])
    for r in rows:
        k = min(shape[-1], budget_per_row)
        idx = torch.randperm(shape[-1], generator=g)[:k]
        r[idx] = torch.randint(lo, hi+1, (k,), generator=g).double()
    return t
bad = 0; n = 0; routes = {}
for dtype in (torch.float32, torch.float16, torch.bfloat16):
    p = P[dtype]
    for aq in (None, qint8, qfloat8_e4m3fn, qfloat8_e5m2):
        for wq in (qint8, qfloat8_e4m3fn, qfloat8_e5m2, qint4, qint2):
            for (rows, K, O) in ((1,16,3), (5,32,8), (17,48,5), (24,64,16), (32,96,7), (3,7,2), (40,128,8), (24,33,9), (8, 160, 4)):
                if dtype == torch.bfloat16 and aq is None and wq == qint8 and K % 4 == 0 and K % 16 != 0: continue
                if dtype == torch.float16 and aq is not None and aq.is_floating_point and wq.is_floating_point: continue  # D13
                # budget: |x|<=2, |w|<=2 -> each product <=4 ; need sum <= 2^p / 4 (leave room for bias) -> nnz <= 2^p/16
                nnz = max(1, min(K, (2**p)//32))
                xs = 2.0**-3; ws = 2.0**-2
                xc = sparse_codes((rows, K), nnz, -2, 2)
                x = (xc*xs).to(dtype)
                if aq is not None:
                    x = SymmetricQuantizer.apply(x, aq, None, torch.tensor(xs, dtype=dtype))
                if wq.bits == 8:
                    wc = sparse_codes((O, K), K, -2, 2)
                    w = SymmetricQuantizer.apply((wc*ws).to(dtype), wq, 0, torch.full((O,1), ws, dtype=dtype) * (2.0**torch.arange(O).remainder(3)).reshape(O,1).to(dtype))
                else:
                    top = 2**wq.bits - 1
                    wc = sparse_codes((O, K), K, 0, min(top, 2)) 
                    zp = torch.ones((O,1), dtype=torch.int8)
                    sc = torch.full((O,1), ws, dtype=dtype)
                    w = AffineQuantizer.apply(((wc-1)*ws).to(dtype), wq, 0, None, sc, zp)
                b = (torch.randint(-3, 4, (O,), generator=g).double() * xs*ws).to(dtype)
                xd = (x.dequantize() if isinstance(x, QTensor) else x).double(); wd = w.dequantize().double()
                ref = (xd @ wd.t() + b.double())
                refd = ref.to(dtype)
                assert torch.equal(refd.double(), ref), 'oracle not exact'
                out = torch.nn.functional.linear(x, w, b)
                n += 1
                if not torch.equal(out, refd):
                    bad += 1; print('MISMATCH', dtype, aq and aq.name, wq.name, rows, K, O, (out.double()-ref).abs().max().item())
print('cases', n, 'bad', bad)
