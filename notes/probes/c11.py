import torch, warnings, copy, io
warnings.simplefilter('ignore')
from optimum.quanto import *
torch.manual_seed(0)
def attempt(name, f):
    try:
        r = f(); print(name, 'OK', r if r is not None else '')
    except Exception as e:
        import traceback
        print(name, 'RAISED', type(e).__name__, str(e)[:200])
def grad_linear(wq, act, shape, dtype=torch.float32, bias=True):
    lin = torch.nn.Linear(shape[-1], 5, bias=bias).to(dtype)
    m = torch.nn.Sequential(lin); quantize(m, weights=wq, activations=act); q = m[0]
    x = torch.randn(*shape).to(dtype).requires_grad_(True)
    if act is not None:
        with torch.no_grad(), Calibration(streamline=False): m(x)
    out = q(x)
    g = torch.randn(out.shape).to(dtype)
    od = out.dequantize() if isinstance(out, QTensor) else out
    od.backward(g)
    # reference
    wd = q.qweight.dequantize().detach()
    x2 = x.detach().clone().requires_grad_(True)
    xin = x2
    if act is not None:
        xin = quantize_activation(x2, act, q.input_scale).dequantize()
    w2 = wd.clone().requires_grad_(True)
    b2 = q.bias.detach().clone().requires_grad_(True) if bias else None
    ref = torch.nn.functional.linear(xin, w2, b2)
    ref.backward(g)
    def md(a,b): return (a.double()-b.double()).abs().max().item()
    return 'x', md(x.grad, x2.grad), 'w', md(q.weight.grad, w2.grad), 'b', md(q.bias.grad, b2.grad) if bias else None, 'scales grad', q.input_scale.grad, q.output_scale.requires_grad
for wq in (qint8, qfloat8, qint4, qint2):
    for act in (None, qint8, qfloat8):
        for shape in ((7,), (3,7), (2,3,7), (2,2,3,7)):
            attempt(f'{wq.name} {act.name if act else None} {shape}', lambda: grad_linear(wq, act, shape))
# frozen: no grad
def frozen():
    m = torch.nn.Sequential(torch.nn.Linear(7,5)); quantize(m, weights=qint8); freeze(m)
    x = torch.randn(3,7, requires_grad=True); out = m(x); out.sum().backward()
    return m[0].weight.requires_grad, m[0].weight.grad, x.grad is not None, m[0].bias.grad is not None
attempt('frozen', frozen)
# non-contiguous input
def noncontig():
    m = torch.nn.Sequential(torch.nn.Linear(7,5)); quantize(m, weights=qint8)
    x = torch.randn(7,3,2, requires_grad=True); out = m(x.permute(2,1,0)); out.sum().backward(); return x.grad.shape
attempt('noncontig', noncontig)
def noncontig_g():
    m = torch.nn.Sequential(torch.nn.Linear(7,5)); quantize(m, weights=qint8)
    x = torch.randn(2,3,7, requires_grad=True); out = m(x); out.permute(2,0,1).contiguous().permute(1,2,0).sum().backward()
    out = m(x); g = torch.randn(5,2,3).permute(1,2,0); out.backward(g); return x.grad.shape
attempt('noncontig grad', noncontig_g)
# conv grads
def conv():
    m = torch.nn.Sequential(torch.nn.Conv2d(3,4,3)); quantize(m, weights=qint4); x = torch.randn(2,3,6,6, requires_grad=True)
    out = m(x); out.sum().backward(); return m[0].weight.grad.shape, x.grad.shape
attempt('conv', conv)
