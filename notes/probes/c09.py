import torch, warnings, copy
warnings.simplefilter('ignore')
from optimum.quanto import *
m = torch.nn.Sequential(torch.nn.Linear(4,4), torch.nn.Linear(4,4)); quantize(m, weights=qint4, activations=qint8)
x = torch.randn(2,4)
with Calibration(streamline=False): m(x)
print(m[0].output_scale, m[0].input_scale, m[1].input_scale)
try:
    m2 = copy.deepcopy(m); print('deepcopy ok')
except Exception as e: print('deepcopy RAISED', type(e).__name__, str(e)[:120])
o0 = m(x)
freeze(m)
o1 = m(x)
print('bit-identical after freeze', torch.equal(o0.dequantize(), o1.dequantize()), torch.equal(o0._data, o1._data))
try:
    m2 = copy.deepcopy(m); print('deepcopy ok', torch.equal(m2(x).dequantize(), o1.dequantize()))
except Exception as e: print('deepcopy RAISED', type(e).__name__, str(e)[:120])
w = m[0].weight
print(type(w), type(w.data), w._data._data.shape, w._data._data.dtype, w._scale.shape, w._zeropoint.shape, w.requires_grad)
sd = m.state_dict()
for k,v in sd.items(): print(k, (tuple(v.shape), v.dtype) if isinstance(v, torch.Tensor) else repr(v))
freeze(m); print(torch.equal(m(x).dequantize(), o1.dequantize()))
# to(device) & float16
try:
    m.to(torch.float16); print('to fp16 ok')
except Exception as e: print('to fp16 RAISED', type(e).__name__, str(e)[:100])
