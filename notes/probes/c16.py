import torch, warnings
warnings.simplefilter('ignore')
from optimum.quanto import *
for dtype in (torch.float32, torch.float16, torch.bfloat16):
    fi = torch.finfo(dtype)
    rows = {
      'zeros': torch.zeros(8), 'const': torch.full((8,), 0.37), 'max': torch.full((8,), fi.max), 'maxmix': torch.tensor([fi.max, -fi.max, 1., 0, 0, 0, 0, 0]),
      'tiny': torch.full((8,), fi.tiny), 'subnormal': torch.tensor([fi.tiny/4, -fi.tiny/8, 0,0,0,0,0,0]) if dtype!=torch.bfloat16 else torch.tensor([fi.tiny/4, -fi.tiny/8, 0,0,0,0,0,0]), 'single': torch.tensor([0,0,0,3.,0,0,0,0]),
      'offset': torch.linspace(100, 100.5, 8), 'neg': -torch.rand(8)-1, 'noise': torch.randn(8),
    }
    t = torch.stack(list(rows.values())).to(dtype)
    for qt in (qint8, qfloat8_e4m3fn, qfloat8_e5m2, qint4, qint2):
        for axis in (0,):
            q = quantize_weight(t, qt, axis)
            d = q.dequantize()
            bad = [n for n,r in zip(rows, d) if not torch.isfinite(r).all()]
            print(str(dtype)[6:], qt.name, 'nonfinite rows:', bad)
# linear with zero weights
for qt in (qint8, qfloat8, qint4):
    lin = torch.nn.Linear(8, 4); torch.nn.init.zeros_(lin.weight)
    m = torch.nn.Sequential(lin); quantize(m, weights=qt)
    out = m(torch.randn(3,8)); print(qt.name, 'zero-weight out == bias:', torch.equal(out, m[0].bias.expand(3,4)), out[0])
# calibrate on zero batch
m = torch.nn.Sequential(torch.nn.Linear(8,4)); quantize(m, weights=qint8, activations=qint8)
with Calibration(streamline=False): m(torch.zeros(3,8))
print(m[0].input_scale, m[0].output_scale); o = m(torch.zeros(3,8)); print(o.dequantize() if hasattr(o,'dequantize') else o)
m = torch.nn.Sequential(torch.nn.Linear(8,4, bias=False)); quantize(m, weights=qint8, activations=qfloat8)
with Calibration(streamline=False): m(torch.zeros(3,8))
print(m[0].input_scale, m[0].output_scale); o = m(torch.randn(3,8)); print(o.dequantize() if hasattr(o,'dequantize') else o)
