import torch, warnings, itertools
warnings.simplefilter('ignore')
from optimum.quanto import *
torch.manual_seed(0)
def ref_linear(x, w, b):
    xd = x.dequantize() if isinstance(x, QTensor) else x
    wd = w.dequantize()
    r = torch.matmul(xd.double(), wd.double().t())
    if b is not None: r = r + b.double()
    return r
fails = {}
n=0
for dtype in (torch.float32, torch.float16, torch.bfloat16):
  for aq in (None, qint8, qfloat8_e4m3fn, qfloat8_e5m2):
    for wq in (qint8, qfloat8_e4m3fn, qfloat8_e5m2, qint4, qint2):
      for bshape in ((), (1,), (3,), (17,), (24,), (2,3), (2,12), (1,1,5)):
        for (i, o) in ((1,1), (3,5), (8,8), (16,24), (32,32), (33, 7), (64, 9), (128,16), (256, 8), (100, 3)):
          for bias in (False, True):
            x = (torch.randn(*bshape, i)).to(dtype)
            w = (torch.randn(o, i)).to(dtype)
            b = torch.randn(o).to(dtype) if bias else None
            if dtype==torch.bfloat16 and aq is None and wq==qint8 and i%4==0 and i%16!=0: continue
            try:
                qx = x if aq is None else quantize_activation(x, aq, absmax_scale(x, aq))
                gs = None
                if wq.bits < 8 and i % 8 == 0 and i >= 8: gs = 8
                qw = quantize_weight(w, wq, 0, gs)
                out = torch.nn.functional.linear(qx, qw, b)
                ref = ref_linear(qx, qw, b)
                n+=1
                key=None
                if out.dtype != dtype: key='dtype'
                elif out.shape != ref.shape: key='shape'
                elif not torch.isfinite(out).all() and torch.isfinite(ref.to(dtype)).all(): key='nonfinite'
                else:
                    # error bound: accumulation in dtype: |err| <= (i+2)*u*sum|x||w| + u|ref|
                    u = {torch.float32:2.0**-24, torch.float16:2.0**-11, torch.bfloat16:2.0**-8}[dtype]
                    xd = (qx.dequantize() if isinstance(qx,QTensor) else qx).double().abs(); wd = qw.dequantize().double().abs()
                    mag = torch.matmul(xd, wd.t()) + (b.double().abs() if b is not None else 0)
                    err = (out.double()-ref).abs()
                    bound = 4*u*mag + 1e-300
                    ratio = (err/bound).max().item() if err.numel() else 0
                    if ratio > 1: key=f'err'
                if key:
                    fails.setdefault((key, str(dtype)[6:], aq.name if aq else None, wq.name), []).append((bshape, i, o, bias, ratio if key=='err' else None))
            except Exception as e:
                fails.setdefault(('EXC '+type(e).__name__+' '+str(e)[:80], str(dtype)[6:], aq.name if aq else None, wq.name), []).append((bshape,i,o,bias))
print('cases', n)
for k,v in fails.items(): print(k, len(v), v[:3])
