import torch, warnings
warnings.simplefilter('ignore')
from optimum.quanto import *
torch.manual_seed(0)
def probe(name, t, qt, axis, gs):
    try:
        q = quantize_weight(t, qt, axis, gs)
    except Exception as e:
        print(name, qt.name, axis, gs, 'RAISED', type(e).__name__, e); return
    d = q.dequantize()
    assert d.shape == t.shape, (d.shape, t.shape)
    from optimum.quanto.tensor.qbits.group import group
    g = group(t, axis, gs) if gs is not None else t
    g64 = g.to(torch.float64)
    dim = list(range(1, g.ndim)) if axis == 0 else list(range(0, g.ndim-1))
    lo = torch.clamp(torch.amin(g64, dim=dim, keepdim=True), max=0)
    hi = torch.clamp(torch.amax(g64, dim=dim, keepdim=True), min=0)
    step = (hi-lo)/(2**qt.bits-1)
    dg = group(d, axis, gs) if gs is not None else d
    err = (dg.to(torch.float64)-g64).abs()
    ratio = (err/(step/2+1e-300)).max().item()
    print(name, qt.name, str(t.dtype)[6:], 'axis',axis,'gs', gs, 'max err/halfstep', round(ratio,4), 'finite', torch.isfinite(d).all().item(), 'zp', q._zeropoint.flatten()[:4].tolist(), 'scale', q._scale.flatten()[:2].tolist())
for dtype in (torch.float32, torch.float16, torch.bfloat16):
  for qt in (qint4, qint2):
    probe('noise', (torch.rand(8,64)*2-1).to(dtype), qt, 0, None)
    probe('noise-g', (torch.rand(8,64)*2-1).to(dtype), qt, 0, 16)
    probe('noise-1', (torch.rand(8,64)*2-1).to(dtype), qt, -1, 4)
    probe('pos', (torch.rand(8,64)+0.5).to(dtype), qt, 0, None)
    probe('offset', (torch.rand(8,64)*0.01+1).to(dtype), qt, 0, None)
    probe('offset-neg', (-torch.rand(8,64)*0.01-1).to(dtype), qt, 0, None)
    probe('const', torch.full((8,64), 0.37).to(dtype), qt, 0, None)
    probe('zeros', torch.zeros(8,64).to(dtype), qt, 0, None)
    probe('mixed', torch.cat([torch.zeros(2,64), torch.rand(2,64), torch.full((2,64),3.), torch.randn(2,64)]).to(dtype), qt, 0, 32)
