import torch, warnings, collections
warnings.simplefilter('ignore')
from optimum.quanto import *
from optimum.quanto.tensor.quantizers import SymmetricQuantizer, AffineQuantizer
torch.manual_seed(0)
res = collections.Counter(); ex = {}
shapes = [(6,), (1,), (4,6), (1,6), (6,1), (2,3,4), (2,1,4), (1,3,1), (2,3,2,2)]
for shape in shapes:
    t = torch.randn(shape)
    for qt in (qint2, qint4, qint8, qfloat8_e4m3fn, qfloat8_e5m2):
        for axis in (None, -2, -1, 0, 1, 2):
            for gs in (None, 1, 2, 3, 4, 6, 12, 24, 48):
                for opt in (None, AbsmaxOptimizer(), MaxOptimizer()):
                    try:
                        q = quantize_weight(t, qt, axis, gs, opt)
                        d = q.dequantize()
                        ok = d.shape == t.shape and torch.isfinite(d).all().item()
                        k = 'ok' if ok else 'BADRESULT'
                    except ValueError as e: k = 'ValueError'
                    except Exception as e: k = type(e).__name__ + ': ' + str(e)[:70]
                    res[k]+=1; ex.setdefault(k, (shape, qt.name, axis, gs, type(opt).__name__))
for k,v in res.items(): print(v, k, ex[k])
print('--- symmetric quantizer direct')
res = collections.Counter(); ex={}
for shape in shapes:
    t = torch.randn(shape)
    for qt in (qint8, qfloat8_e4m3fn, qint4):
        for axis in (None, -2, -1, 0, 1, 2, 3):
            sshapes = [(), (1,), (shape[0],), (shape[-1],)] + [tuple(s if i==j else 1 for j,s in enumerate(shape)) for i in range(len(shape))] + [shape, (1,)*len(shape)]
            for ss in sshapes:
                scale = torch.rand(ss)+0.1
                try:
                    q = SymmetricQuantizer.apply(t, qt, axis, scale)
                    d = q.dequantize(); k = 'ok' if d.shape==t.shape else 'BADSHAPE'
                    # per-axis consistency: scale broadcasts along declared axis
                    if q.axis is not None:
                        exp = [1]*t.ndim; exp[q.axis] = t.shape[q.axis]
                        if tuple(q._scale.shape) != tuple(exp): k = f'ok-but-scale-shape-mismatch'
                    elif q._scale.ndim != 0: k='ok-but-pt-scale-nonscalar'
                except ValueError: k='ValueError'
                except Exception as e: k = type(e).__name__ + ': ' + str(e)[:70]
                res[k]+=1; ex.setdefault(k, (shape, qt.name, axis, ss))
for k,v in res.items(): print(v, k, ex[k])
print('--- group size auto')
bad = []
from optimum.quanto.nn import QLinear
for i in range(1, 2049):
    l = QLinear(i, 2, weights=qint4, device='meta')
    g = l.weight_group_size
    if g is not None and (i % g != 0 or g not in (128,96,64,32)): bad.append((i,g))
print('bad', bad[:10])
print([ (i, QLinear(i,2,weights=qint4,device='meta').weight_group_size) for i in (32,64,128,129,160,192,256,224,288,100,1000)])
