import torch, warnings, traceback
warnings.simplefilter('ignore')
from optimum.quanto import *
torch.manual_seed(0)
def qa(shape, qt=qint8, dtype=torch.float32, s=None):
    t = (torch.rand(shape)*2-1).to(dtype)
    sc = absmax_scale(t, qt) if s is None else torch.tensor(s, dtype=dtype)
    return quantize_activation(t, qt, sc)
def qw(shape, qt=qint8, dtype=torch.float32, axis=0, gs=None):
    t = (torch.rand(shape)*2-1).to(dtype)
    return quantize_weight(t, qt, axis, gs)
def deq(x):
    if isinstance(x, QTensor): return x.dequantize()
    if isinstance(x, (list, tuple)): return type(x)(deq(i) for i in x)
    return x
def describe(r):
    if isinstance(r, (list,tuple)): return [describe(i) for i in r]
    if isinstance(r, torch.Tensor): return f'{type(r).__name__}{tuple(r.shape)}{str(r.dtype)[6:]}' + (f'/inner{tuple(r._data.shape)}' if hasattr(r,'_data') else '')
    return repr(r)
def maxdiff(a, b):
    if isinstance(a, (list,tuple)): return max(maxdiff(x,y) for x,y in zip(a,b))
    if isinstance(a, torch.Tensor):
        a = deq(a)
        if a.shape != b.shape: return f'SHAPE {tuple(a.shape)} vs {tuple(b.shape)}'
        return (a.double()-b.double()).abs().max().item() if a.numel() else 0.
    return 0. if a == b else 'NEQ'
def run(name, f, *args):
    try:
        ref = f(*[deq(a) for a in args])
    except Exception as e:
        print(f'{name:40s} FLOAT-INVALID {type(e).__name__}'); return
    try:
        r = f(*args)
        print(f'{name:40s} ok {describe(r)} maxdiff={maxdiff(r, ref)}')
    except Exception as e:
        print(f'{name:40s} RAISED {type(e).__name__}: {str(e)[:100]}')
for qt in (qint8, qfloat8_e4m3fn):
    print('=====', qt.name)
    a = qa((4,6), qt); b = qa((4,6), qt); a2 = qa((4,6), qt, s=a._scale.item())
    w = qw((4,6), qt); w2 = qw((6,4), qt, axis=-1)
    for nm, x in (('pt', a), ('ax0', w), ('ax-1', w2)):
        run(nm+' view', lambda x: x.view(-1), x)
        run(nm+' reshape', lambda x: x.reshape(2,-1), x)
        run(nm+' flatten', lambda x: x.flatten(), x)
        run(nm+' t', lambda x: x.t(), x)
        run(nm+' transpose', lambda x: x.transpose(0,1), x)
        run(nm+' permute', lambda x: x.permute(1,0), x)
        run(nm+' slice', lambda x: x[1:3, ::2], x)
        run(nm+' select', lambda x: x[1], x)
        run(nm+' unsqueeze', lambda x: x.unsqueeze(1), x)
        run(nm+' squeeze', lambda x: x.unsqueeze(0).squeeze(0), x)
        run(nm+' expand', lambda x: x.unsqueeze(0).expand(3,-1,-1), x)
        run(nm+' split', lambda x: torch.split(x, 2, dim=0), x)
        run(nm+' chunk', lambda x: torch.chunk(x, 2, dim=1), x)
        run(nm+' mul scalar', lambda x: x*2.5, x)
        run(nm+' rmul scalar', lambda x: 2.5*x, x)
        run(nm+' div scalar', lambda x: x/2.5, x)
        run(nm+' rdiv scalar', lambda x: 2.5/x, x)
        run(nm+' neg', lambda x: -x, x)
        run(nm+' relu', lambda x: torch.relu(x), x)
        run(nm+' F.relu', lambda x: torch.nn.functional.relu(x), x)
        run(nm+' softmax', lambda x: torch.softmax(x, dim=-1), x)
        run(nm+' where', lambda x: torch.where(torch.ones(x.shape, dtype=torch.bool).tril(), x, torch.zeros(())), x)
        run(nm+' where tensor other', lambda x: torch.where(torch.ones(x.shape, dtype=torch.bool).tril(), x, torch.zeros(x.shape)), x)
        run(nm+' where(q as other)', lambda x: torch.where(torch.ones(x.shape, dtype=torch.bool).tril(), torch.zeros(x.shape), x), x)
        run(nm+' lt self', lambda x: x < x, x)
        run(nm+' lt scalar', lambda x: x < 0.1, x)
        run(nm+' clone', lambda x: x.clone(), x)
        run(nm+' detach', lambda x: x.detach(), x)
        run(nm+' to fp16', lambda x: x.to(torch.float16), x)
        run(nm+' half', lambda x: x.half(), x)
        run(nm+' to cpu', lambda x: x.to('cpu'), x)
        run(nm+' contiguous', lambda x: x.t().contiguous(), x)
        run(nm+' add', lambda x: x + x, x)
        run(nm+' sum', lambda x: x.sum(), x)
        run(nm+' abs', lambda x: x.abs(), x)
        run(nm+' gelu', lambda x: torch.nn.functional.gelu(x), x)
        run(nm+' layer_norm', lambda x: torch.nn.functional.layer_norm(x, x.shape[-1:]), x)
        run(nm+' topk', lambda x: torch.topk(x, 2).values, x)
        run(nm+' mm plain', lambda x: torch.mm(x, torch.ones(x.shape[1], 3)), x)
        run(nm+' matmul plain@q', lambda x: torch.matmul(torch.ones(3, x.shape[0]), x), x)
        run(nm+' index', lambda x: x[torch.tensor([0,2])], x)
        run(nm+' zeros_like', lambda x: torch.zeros_like(x), x)
        run(nm+' equal', lambda x: torch.equal(x, x), x)
        run(nm+' numel', lambda x: x.numel(), x)
    run('cat same scale', lambda x,y: torch.cat([x,y]), a, a2)
    run('cat diff scale', lambda x,y: torch.cat([x,y]), a, b)
    run('cat 3', lambda x,y: torch.cat([x,y,x]), a, a2)
    run('cat q+plain', lambda x,y: torch.cat([x,y]), a, torch.ones(4,6))
    run('cat plain+q', lambda x,y: torch.cat([y,x]), a, torch.ones(4,6))
    run('stack same scale', lambda x,y: torch.stack([x,y]), a, a2)
    run('stack diff scale', lambda x,y: torch.stack([x,y]), a, b)
    run('stack 3', lambda x,y: torch.stack([x,y,x]), a, a2)
    run('stack q+plain', lambda x,y: torch.stack([x,y]), a, torch.ones(4,6))
    run('lt same scale', lambda x,y: x<y, a, a2)
    run('lt diff scale', lambda x,y: x<y, a, b)
    run('mul q*q', lambda x,y: x*y, a, b)
    run('mul q*plain', lambda x,y: x*y, a, torch.ones(4,6)*2)
    run('div q/plain', lambda x,y: x/y, a, torch.ones(4,6)*2)
    run('div plain/q', lambda x,y: y/x, a, torch.ones(4,6)*2)
    run('copy_ q<-q', lambda x,y: x.clone().copy_(y), a, b)
    run('copy_ plain<-q', lambda x,y: torch.zeros(4,6).copy_(x), a, b)
    run('copy_ q<-plain', lambda x,y: x.clone().copy_(torch.ones(4,6)), a, b)
    run('mm q@q', lambda x,y: torch.mm(x, y.t()), a, b)
    run('mm q@w.t', lambda x,y: torch.mm(x, y.t()), a, w)
    run('matmul q@w2', lambda x,y: torch.matmul(x, y), a, w2)
    run('bmm', lambda x,y: torch.bmm(x.unsqueeze(0), y.t().unsqueeze(0)), a, b)
    run('linear q,w', lambda x,y: torch.nn.functional.linear(x, y), a, w)
    run('linear plain,w', lambda x,y: torch.nn.functional.linear(torch.ones(3,6), y), a, w)
    run('linear q,w,bias', lambda x,y: torch.nn.functional.linear(x, y, torch.ones(4)), a, w)
    run('circular pad', lambda x: torch.nn.functional.pad(x.view(1,1,4,6), (1,1,1,1), mode='circular'), a)
    run('where qcond', lambda x: torch.where(x, 1., 0.), a)
print('===== qbits')
for qt in (qint4, qint2):
    w = qw((4,64), qt, gs=16)
    for nm, f in (('view', lambda x: x.view(-1)), ('t', lambda x: x.t()), ('slice', lambda x: x[1:3]), ('mul', lambda x: x*2.), ('neg', lambda x:-x), ('clone', lambda x: x.clone()), ('detach', lambda x: x.detach()), ('to fp16', lambda x: x.to(torch.float16)), ('to cpu', lambda x: x.to('cpu')),
        ('linear', lambda x: torch.nn.functional.linear(torch.ones(3,64), x)), ('mm', lambda x: torch.mm(torch.ones(3,4), x)), ('cat', lambda x: torch.cat([x,x])), ('split', lambda x: torch.split(x,2)), ('copy_', lambda x: x.clone().copy_(x)), ('sum', lambda x: x.sum()), ('lt', lambda x: x<0)):
        run(qt.name+' '+nm, f, w)
