import subprocess, sys, itertools
from concurrent.futures import ThreadPoolExecutor
def run(a):
    r,i,o = a
    p = subprocess.run(['/venv/bin/python','c07c.py',str(r),str(i),str(o)],capture_output=True,text=True)
    last = [l for l in p.stdout.splitlines() if l.startswith('ok')]
    if p.returncode != 0: return a, 'CRASH%d'%p.returncode
    v = float(last[-1].split()[1])
    return a, 'good' if v < 0.05 else 'BAD'
cases = [(r,i,o) for r in (1,5,33) for i in (16,24,32,48,64,96,160,224,256,288,512,1024+32) for o in (1,2,3,5,8,17,33,64,100)]
with ThreadPoolExecutor(16) as ex:
    res = list(ex.map(run, cases))
import collections
byk = collections.defaultdict(collections.Counter)
for (r,i,o),v in res: byk[i][v]+=1
for k in sorted(byk): print('K=',k, dict(byk[k]))
bad = [(a,v) for a,v in res if v!='good' and a[1]%32==0]
print(bad[:40])
