import torch, warnings, sys, faulthandler
faulthandler.enable()
warnings.simplefilter('ignore')
from optimum.quanto import *
dtype = getattr(torch, sys.argv[1]); aq = qtypes[sys.argv[2]] if sys.argv[2] != 'none' else None; wq = qtypes[sys.argv[3]]
for bshape in ((), (1,), (3,), (17,), (24,), (2,3), (2,12), (1,1,5)):
    for (i, o) in ((1,1), (3,5), (8,8), (16,24), (32,32), (33, 7), (64, 9), (128,16), (256, 8), (100, 3)):
        x = (torch.randn(*bshape, i)).to(dtype)
        w = (torch.randn(o, i)).to(dtype)
        qx = x if aq is None else quantize_activation(x, aq, absmax_scale(x, aq))
        qw = quantize_weight(w, wq, 0)
        print(bshape, i, o, flush=True)
        out = torch.nn.functional.linear(qx, qw, None)
print('done')
