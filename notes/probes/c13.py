import torch, warnings
warnings.simplefilter('ignore')
from optimum.quanto import *
import torch.nn.modules.module as M
from torch.overrides import _get_current_function_mode_stack
def snap(): return (dict(M._global_forward_hooks), dict(M._global_forward_pre_hooks), list(_get_current_function_mode_stack()), dict(M._global_forward_hooks_always_called) if hasattr(M,'_global_forward_hooks_always_called') else None, dict(M._global_forward_hooks_with_kwargs) if hasattr(M, '_global_forward_hooks_with_kwargs') else None)
class Boom(torch.nn.Module):
    def forward(self, x): raise KeyError('boom')
m = torch.nn.Sequential(torch.nn.Linear(4,4), Boom(), torch.nn.Linear(4,4)); quantize(m, weights=qint8, activations=qint8)
s0 = snap(); print(s0)
try:
    with Calibration(momentum=0.5):
        m(torch.randn(2,4))
except KeyError as e: print('caught', e)
print(snap() == s0, m[0].input_scale, m[2].input_scale)
# nested
with Calibration(momentum=0.5):
    s1 = snap()
    try:
        with Calibration(momentum=0.1):
            m[0](torch.randn(2,4)); raise ValueError('x')
    except ValueError: pass
    print('inner restored', snap()==s1)
print('outer restored', snap()==s0)
# momentum observable
m = torch.nn.Sequential(torch.nn.Linear(4,4)); quantize(m, weights=qint8, activations=qint8)
x1 = torch.ones(1,4); x2 = torch.ones(1,4)*3
with Calibration(momentum=0.5, streamline=False):
    m(x1); print(m[0].input_scale*127, m[0].output_scale)
    m(x2); print(m[0].input_scale*127, 'expected', 0.5*1+0.5*3, 'default-0.9 gives', .9*1+.1*3)
# sentinel collision
m = torch.nn.Sequential(torch.nn.Linear(4,4)); quantize(m, weights=qint8, activations=qint8)
with Calibration(momentum=0.5, streamline=False):
    m(torch.ones(1,4)*127); print(m[0].input_scale)
    m(torch.ones(1,4)*3*127); print(m[0].input_scale, 'expected EMA', 0.9*1+0.1*3, 'or', 2.0)
# disable_extensions nesting
from optimum.quanto.library import ops
with ops.disable_extensions():
    with ops.disable_extensions(): pass
    print('after inner exit, _ext_enabled =', ops._ext_enabled)
print(ops._ext_enabled)
