import torch, numpy as np, itertools, warnings
warnings.simplefilter('ignore')
from optimum.quanto import *
from optimum.quanto.tensor.quantizers import SymmetricQuantizer

def all_values(dtype):
    bits = torch.arange(0, 2**16, dtype=torch.int32).to(torch.int16)  # wraps
    v = bits.view(dtype)
    return v[torch.isfinite(v)]

def grid(qt):
    if qt.is_floating_point:
        b = torch.arange(0,256,dtype=torch.int32).to(torch.uint8).view(qt.dtype).to(torch.float64)
        b = b[torch.isfinite(b)]
        return torch.unique(b)
    return torch.arange(-128,128,dtype=torch.float64)

U = {torch.float16: 2.0**-11, torch.bfloat16: 2.0**-8, torch.float32: 2.0**-24}
TINY = {torch.float16: 2.0**-24, torch.bfloat16: 2.0**-133, torch.float32: 2.0**-149}
for dtype in (torch.float16, torch.bfloat16):
    x = all_values(dtype)
    for qt in (qint8, qfloat8_e4m3fn, qfloat8_e5m2):
        g = grid(qt)
        for s in (1.0, 0.0123, 1000.0, 6e-5, 3.1e-7, 60000.0, 2.0**-24 if dtype==torch.float16 else 1e-38):
            scale = torch.tensor(s, dtype=dtype)
            if scale == 0 or not torch.isfinite(scale): continue
            q = quantize_activation(x, qt, scale)
            d = q.dequantize()
            codes = q._data.to(torch.float64)
            s64 = scale.to(torch.float64)
            x64 = x.to(torch.float64)
            # membership / dequant correctness
            exp = (s64*codes).to(dtype)
            bad_deq = ~((exp == d) | (torch.isnan(exp)&torch.isnan(d)))
            # optimality
            qreal = x64/s64
            # nearest distance in code units
            idx = torch.searchsorted(g, qreal).clamp(1, len(g)-1)
            dstar = torch.minimum((g[idx]-qreal).abs(), (g[idx-1]-qreal).abs())
            dact = (codes-qreal).abs()
            u = U[dtype]
            tol = 2*qreal.abs()*u + 2*TINY[dtype]/s64
            # beyond the range, tolerance relative makes no sense: saturating should be exact
            sat = qreal.abs() > g.max()
            bad_opt = (dact > dstar + tol) & ~sat
            bad_sat = sat & (codes != torch.where(qreal>0, g.max(), g.min()))
            # idempotence
            q2 = quantize_activation(d, qt, scale)
            fin = torch.isfinite(d)
            bad_idem = fin & (q2._data.to(torch.float64) != codes)
            nan_codes = torch.isnan(codes).sum().item()
            print(dtype, qt.name, s, 'deq', bad_deq.sum().item(), 'opt', bad_opt.sum().item(), 'sat', bad_sat.sum().item(), 'idem', bad_idem.sum().item(), 'nan', nan_codes, 'infdeq', (~fin).sum().item())
            if bad_opt.any():
                i = bad_opt.nonzero()[0,0]; print('   ex opt', x[i].item(), qreal[i].item(), codes[i].item(), dstar[i].item(), dact[i].item(), tol[i].item())
            if bad_idem.any():
                i = bad_idem.nonzero()[0,0]; print('   ex idem', x[i].item(), codes[i].item(), q2._data[i].item(), d[i].item())
            if bad_sat.any():
                i = bad_sat.nonzero()[0,0]; print('   ex sat', x[i].item(), qreal[i].item(), codes[i].item())
