"""Build / attach the C++ unpack extension from the CURRENT sources of the tree under test.

The repo's own `Extension` object is used (so the real route torch.ops.quanto.unpack -> quanto_ext::unpack ->
ext.lib.unpack is exercised); only its build directory is redirected to /verif/.build/cpp-<hash of sources> so that
nothing is ever written into the tree under test and a source edit forces a rebuild.
"""
import hashlib
import os
import sys

from . import env


def _sources():
    d = os.path.join(env.REPO, "optimum", "quanto", "library", "ext", "cpp")
    return [os.path.join(d, f) for f in sorted(os.listdir(d)) if f.endswith((".cpp", ".h", ".hpp", ".cc"))]


def source_hash():
    h = hashlib.sha256()
    for p in _sources():
        h.update(os.path.basename(p).encode())
        with open(p, "rb") as f:
            h.update(f.read())
    import torch

    h.update(torch.__version__.encode())
    return h.hexdigest()[:16]


def build_dir():
    return os.path.join(env.VERIF, ".build", "cpp-" + source_hash())


def is_built():
    d = build_dir()
    return os.path.exists(os.path.join(d, "quanto_cpp.so"))


def attach(build=False):
    """Point the repo's extension object at our build directory. Returns True if the compiled kernel is usable.

    build=False: only attach when the library has already been built (cheap, used by every worker);
    build=True: compile if needed (~60 s once per source hash).
    """
    env.setup()
    from optimum.quanto.library.ext.cpp import ext

    d = build_dir()
    if not build and not is_built():
        # leave the extension unreachable: without ninja quanto warns and falls back to the python kernel
        return False
    if build and is_built():
        # already compiled for exactly these sources (the directory name is their hash): no need to go through torch's
        # load() again, which re-runs ninja (~35 s) and waits on a lock file a killed build may have left behind
        try:
            if attach(build=False):
                return True
        except Exception:  # noqa: BLE001  (a truncated library from a killed build: compile again)
            pass
        import shutil

        shutil.rmtree(d, ignore_errors=True)
    if build:
        # ninja lives next to the interpreter; torch.utils.cpp_extension needs it on PATH (only the explicit build step has it)
        bindir = os.path.dirname(sys.executable)
        if bindir not in os.environ.get("PATH", "").split(os.pathsep):
            os.environ["PATH"] = bindir + os.pathsep + os.environ.get("PATH", "")
    os.makedirs(d, exist_ok=True)
    ext.build_directory = d
    ext._lib = None
    if not build:
        # the directory name is the hash of the current sources, so the library in it is current: import it
        # directly instead of going through torch's load() (whose file lock serialises 16 starting workers)
        import importlib.util

        import torch  # noqa: F401  (the extension links against libtorch)

        spec = importlib.util.spec_from_file_location("quanto_cpp", os.path.join(d, "quanto_cpp.so"))
        mod = importlib.util.module_from_spec(spec)
        spec.loader.exec_module(mod)
        ext._lib = mod
        return True
    try:
        ext.lib  # noqa: B018  (triggers load / build)
    except Exception as e:  # build failure: a harness problem unless the sources were edited
        sys.stderr.write(f"cppext: build/load failed: {e!r}\n")
        return False
    return True


if __name__ == "__main__":
    ok = attach(build=True)
    print("cppext", "ready" if ok else "FAILED", build_dir())
    sys.exit(0 if ok else 2)
