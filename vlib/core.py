"""Shard-side machinery: case execution bookkeeping, the Hypothesis driver with collect-then-shrink,
exhaustive enumeration driver, journal for crash containment.

Vocabulary
  case      JSON-serialisable dict that fully determines one execution (no hidden randomness).
  execute   check-specific function  case -> Outcome  (pure function of tree + case).
  signature string naming one root cause candidate: "<sub-check>/<site>/<kind>[/<predicate>]".
"""
import hashlib
import json
import os
import time
import traceback
from collections import Counter

from . import env


class Raised:
    """Value returned by cut() when the code under test raised."""

    def __init__(self, exc):
        self.exc = exc
        self.type = type(exc).__name__
        self.text = (str(exc).splitlines() or [""])[0][:200]

    def __repr__(self):
        return f"Raised({self.type}: {self.text})"


def cut(fn, *args, **kwargs):
    """Call into the code under test. Only exceptions crossing this boundary count for/against a property."""
    try:
        return fn(*args, **kwargs)
    except (KeyboardInterrupt, SystemExit, MemoryError):
        raise
    except RecursionError as e:
        return Raised(e)
    except BaseException as e:  # noqa: BLE001
        return Raised(e)


class Outcome:
    """What executing one case established."""

    __slots__ = ("failures", "nontrivial", "fingerprint", "klass", "discard", "notes")

    def __init__(self):
        self.failures = []  # list of (signature, message)
        self.nontrivial = False
        self.fingerprint = None
        self.klass = None  # str or list of str, histogrammed
        self.discard = False  # case outside the property's domain (counted)
        self.notes = None

    def fail(self, sig, msg=""):
        self.failures.append((sig, str(msg)[:600]))
        return self


class Violation(AssertionError):
    pass


def isolated(execute):
    """Wrap an execute(case) so that every case runs in a forked child of the worker: whatever process-global state the code
    under test leaves behind (module-level caches, patched tables, registries) dies with the child, so a history is judged
    from a clean library state, failures reproduce from the case alone and shrinking is not confused by earlier cases.
    The child returns the Outcome's fields through a pipe; a child killed by a signal is reported like any crash."""
    import json
    import os
    import signal

    try:  # heavy lazy imports of torch itself (sympy through symbolic_shapes on the first __torch_dispatch__): once, in the parent
        import torch.fx.experimental.symbolic_shapes  # noqa: F401
        import torch._dynamo  # noqa: F401
    except Exception:  # noqa: BLE001
        pass

    def run(case):
        r, w = os.pipe()
        pid = os.fork()
        if pid == 0:
            code = 0
            try:
                os.close(r)
                out = execute(case)
                payload = json.dumps({"failures": out.failures, "nontrivial": bool(out.nontrivial), "fingerprint": out.fingerprint,
                                      "klass": out.klass, "discard": bool(out.discard)}, default=str).encode()
                with os.fdopen(w, "wb") as f:
                    f.write(payload)
            except BaseException:  # noqa: BLE001  (harness error in the child: reported by the parent)
                import traceback

                try:
                    with os.fdopen(w, "wb") as f:
                        f.write(json.dumps({"harness": traceback.format_exc()[-1500:]}).encode())
                except Exception:  # noqa: BLE001
                    code = 3
            finally:
                os._exit(code)
        os.close(w)
        with os.fdopen(r, "rb") as f:
            data = f.read()
        _, status = os.waitpid(pid, 0)
        out = Outcome()
        if os.WIFSIGNALED(status):
            return out.fail(f"crash/{signal.Signals(os.WTERMSIG(status)).name}", "the child running this history was killed by a signal")
        d = json.loads(data.decode()) if data else {"harness": "child returned nothing"}
        if "harness" in d:
            raise RuntimeError("HARNESS-ERROR in isolated child: " + d["harness"])
        out.failures = [tuple(x) for x in d["failures"]]
        out.nontrivial, out.fingerprint, out.klass, out.discard = d["nontrivial"], d["fingerprint"], d["klass"], d["discard"]
        return out

    return run


def fp(obj):
    return hashlib.blake2b(json.dumps(obj, sort_keys=True, default=str).encode(), digest_size=8).hexdigest()


class Ctx:
    """Per-shard state."""

    def __init__(self, check, sub, tier, seed, shard, nshards, outdir, known_open=(), params=None):
        self.check, self.sub, self.tier = check, sub, tier
        self.seed, self.shard, self.nshards = seed, shard, nshards
        self.outdir = outdir
        self.params = params or {}
        self.known_open = set(known_open)
        self.evaluations = 0
        self.discarded = 0
        self.nontrivial = set()
        self.classes = Counter()
        self.samples = []
        self.known_hits = Counter()
        self.known_examples = {}
        self.excluded = Counter()
        self.found = {}  # sig -> {"case":..., "msg":...}
        self.extra = {}
        self.t0 = time.time()
        self.exhaustive = None
        self._journal = None
        if outdir:
            os.makedirs(outdir, exist_ok=True)
            self._journal = open(os.path.join(outdir, f"journal-{sub}-{shard}.json"), "w")

    # -- derived seed, a pure function of (VERIF_SEED, sub-check, shard)
    def derived_seed(self, salt=""):
        h = hashlib.blake2b(f"{self.seed}/{self.check}/{self.sub}/{self.shard}/{salt}".encode(), digest_size=6)
        return int.from_bytes(h.digest(), "big")

    def journal(self, case):
        if self._journal is not None:
            self._journal.seek(0)
            self._journal.truncate()
            json.dump(case, self._journal, default=str)
            self._journal.flush()

    def account(self, case, out):
        self.evaluations += 1
        if out.discard:
            self.discarded += 1
            return
        k = out.klass
        if k is not None:
            if isinstance(k, (list, tuple, set)):
                for x in k:
                    self.classes[x] += 1
            else:
                self.classes[k] += 1
        if out.nontrivial:
            f = out.fingerprint if out.fingerprint is not None else fp(case)
            if not isinstance(f, str):
                f = fp(f)
            if f not in self.nontrivial:
                self.nontrivial.add(f)
                if len(self.samples) < 6:
                    s = json.dumps(case, default=str)
                    if len(s) < 4000:
                        self.samples.append(case)

    def result(self):
        return {
            "check": self.check,
            "sub": self.sub,
            "shard": self.shard,
            "evaluations": self.evaluations,
            "discarded": self.discarded,
            "nontrivial": sorted(self.nontrivial),
            "classes": dict(self.classes),
            "samples": self.samples,
            "known_hits": dict(self.known_hits),
            "known_examples": self.known_examples,
            "excluded": dict(self.excluded),
            "found": self.found,
            "extra": self.extra,
            "exhaustive": self.exhaustive,
            "wall_s": time.time() - self.t0,
        }


def _case_size(case):
    return len(json.dumps(case, default=str))


def _handle(ctx, case, out, collected, state):
    """Sort the failures of one outcome: known-open -> counted; already collected -> excluded; new -> raise."""
    new = None
    for sig, msg in out.failures:
        if sig in ctx.known_open:
            ctx.known_hits[sig] += 1
            if sig not in ctx.known_examples or _case_size(case) < _case_size(ctx.known_examples[sig]["case"]):
                ctx.known_examples[sig] = {"case": case, "msg": msg}
        elif sig in collected:
            ctx.excluded[sig] += 1
        else:
            if state.get("target") is None:
                state["target"] = sig
            if sig == state["target"]:
                new = (sig, msg)
            else:
                # another new root cause seen while shrinking: remember it, it will be the next target
                state.setdefault("pending", {}).setdefault(sig, {"case": case, "msg": msg})
    return new


def drive(ctx, strategy, execute, max_examples, shrink_budget=None, max_restarts=5):
    """Run `execute` over Hypothesis-generated cases; shrink each new signature; restart behind it.

    The body raises only for ONE target signature at a time so that Hypothesis shrinks a single root cause; the
    smallest failing case actually executed is what gets recorded.  After `shrink_budget` post-failure executions the
    body stops executing and raises unconditionally, which makes Hypothesis finish at once (no flakiness: from then on
    every input "fails"), while the recorded minimal case stays the smallest one that really failed.
    """
    import hypothesis
    from hypothesis import HealthCheck, Phase, given, settings

    if shrink_budget is None:
        shrink_budget = 150 if ctx.tier == "quick" else 1500
    collected = set()
    import copy

    snap = None
    for restart in range(max_restarts + 1):
        # every restart replays the same generated stream (same seed) with one more signature excluded; only the
        # accounting of the last pass (the one that got furthest) is kept, so nothing is counted twice
        if snap is not None:
            (ctx.evaluations, ctx.discarded, ctx.nontrivial, ctx.classes, ctx.samples, ctx.known_hits,
             ctx.excluded) = copy.deepcopy(snap)
        else:
            snap = copy.deepcopy((ctx.evaluations, ctx.discarded, ctx.nontrivial, ctx.classes, ctx.samples,
                                  ctx.known_hits, ctx.excluded))
        state = {"target": None, "best": None, "after": 0}

        def body(case):
            if state["target"] is not None:
                state["after"] += 1
                if state["after"] > shrink_budget:
                    raise Violation(state["target"])
            ctx.journal(case)
            out = execute(case)
            if state["target"] is None:
                ctx.account(case, out)
            new = _handle(ctx, case, out, collected, state)
            if new is not None:
                sig, msg = new
                if state["best"] is None or _case_size(case) < _case_size(state["best"]["case"]):
                    state["best"] = {"case": case, "msg": msg}
                raise Violation(sig)

        test = given(strategy)(body)
        test = hypothesis.seed(ctx.derived_seed())(test)
        test = settings(
            max_examples=max_examples,
            database=None,
            deadline=None,
            derandomize=False,
            report_multiple_bugs=False,
            suppress_health_check=list(HealthCheck),
            phases=[Phase.generate, Phase.shrink],
            verbosity=hypothesis.Verbosity.quiet,
            print_blob=False,
        )(test)
        try:
            test()
        except Violation:
            pass
        except hypothesis.errors.Flaky as e:  # should not happen: executions are pure functions of the case
            ctx.extra.setdefault("flaky", []).append(str(e)[:300])
        if state["target"] is None:
            break
        sig = state["target"]
        ctx.found[sig] = state["best"]
        collected.add(sig)
        for s, v in state.get("pending", {}).items():
            if s not in ctx.found and s not in ctx.known_open:
                ctx.found.setdefault("~" + s, v)  # provisional, replaced if a later restart shrinks it
    # provisional entries that were properly shrunk later are dropped
    for k in [k for k in ctx.found if k.startswith("~")]:
        v = ctx.found.pop(k)
        ctx.found.setdefault(k[1:], v)


def enumerate_cases(ctx, cases, execute, exhaustive_name=None):
    """Run `execute` over an explicit iterable of cases (complete enumeration of a finite sub-domain)."""
    for case in cases:
        ctx.journal(case)
        out = execute(case)
        ctx.account(case, out)
        for sig, msg in out.failures:
            if sig in ctx.known_open:
                ctx.known_hits[sig] += 1
                ctx.known_examples.setdefault(sig, {"case": case, "msg": msg})
            elif sig in ctx.found:
                ctx.excluded[sig] += 1
                if _case_size(case) < _case_size(ctx.found[sig]["case"]):
                    ctx.found[sig] = {"case": case, "msg": msg}
            else:
                ctx.found[sig] = {"case": case, "msg": msg}
    if exhaustive_name:
        ctx.exhaustive = exhaustive_name


def harness_guard(fn):
    """Wrap a worker entry: any exception that escapes is a harness error (exit 2), never a violation."""

    def run(*a, **k):
        try:
            return fn(*a, **k)
        except SystemExit:
            raise
        except BaseException:  # noqa: BLE001
            traceback.print_exc()
            raise SystemExit(2)

    return run


def drive_machine(ctx, machine_factory, max_examples, step_count, shrink_budget=None, max_restarts=4):
    """Hypothesis stateful mode (RuleBasedStateMachine) with the same collect-then-shrink protocol as drive().

    machine_factory(hook) returns a RuleBasedStateMachine subclass whose rules build an explicit trace
    (self.trace: list of JSON step dicts) and call `hook.step(self.trace, failures)` after every executed step and
    `hook.finish(self.trace, outcome)` from teardown().  The explicit trace is the replayable case.
    """
    import copy

    import hypothesis
    from hypothesis import HealthCheck, Phase, settings
    from hypothesis.stateful import run_state_machine_as_test

    if shrink_budget is None:
        shrink_budget = 60 if ctx.tier == "quick" else 600
    collected = set()
    snap = None
    for restart in range(max_restarts + 1):
        if snap is not None:
            (ctx.evaluations, ctx.discarded, ctx.nontrivial, ctx.classes, ctx.samples, ctx.known_hits, ctx.excluded) = copy.deepcopy(snap)
        else:
            snap = copy.deepcopy((ctx.evaluations, ctx.discarded, ctx.nontrivial, ctx.classes, ctx.samples, ctx.known_hits, ctx.excluded))
        state = {"target": None, "best": None, "after": 0}

        class Hook:
            @staticmethod
            def begin():
                if state["target"] is not None:
                    state["after"] += 1
                    if state["after"] > shrink_budget:
                        raise Violation(state["target"])

            @staticmethod
            def step(trace, failures):
                case = {"steps": list(trace)}
                ctx.journal(case)
                out = Outcome()
                out.failures = list(failures)
                new = _handle(ctx, case, out, collected, state)
                if new is not None:
                    sig, msg = new
                    if state["best"] is None or _case_size(case) < _case_size(state["best"]["case"]):
                        state["best"] = {"case": case, "msg": msg}
                    raise Violation(sig)

            @staticmethod
            def finish(trace, out):
                if state["target"] is None:
                    ctx.account({"steps": list(trace)}, out)

        machine = machine_factory(Hook)
        machine = hypothesis.seed(ctx.derived_seed())(machine)
        st_ = settings(
            max_examples=max_examples,
            stateful_step_count=step_count,
            database=None,
            deadline=None,
            derandomize=False,
            report_multiple_bugs=False,
            suppress_health_check=list(HealthCheck),
            phases=[Phase.generate, Phase.shrink],
            verbosity=hypothesis.Verbosity.quiet,
            print_blob=False,
        )
        try:
            run_state_machine_as_test(machine, settings=st_)
        except Violation:
            pass
        except hypothesis.errors.Flaky as e:
            ctx.extra.setdefault("flaky", []).append(str(e)[:300])
        if state["target"] is None:
            break
        ctx.found[state["target"]] = state["best"]
        collected.add(state["target"])
        for s, v in state.get("pending", {}).items():
            if s not in ctx.found and s not in ctx.known_open:
                ctx.found.setdefault(s, v)
