"""Parent process of a check: shard pool, crash containment, known-findings matching, replay + evidence files."""
import glob
import hashlib
import importlib
import json
import os
import re
import shutil
import signal
import subprocess
import sys
import time
from collections import Counter

VERIF = os.path.dirname(os.path.dirname(os.path.abspath(__file__)))
PY = os.environ.get("VERIF_PYTHON", "/venv/bin/python")
MAXPROC = int(os.environ.get("VERIF_JOBS", "16"))


def load_findings():
    p = os.path.join(VERIF, "known_findings.json")
    if not os.path.exists(p):
        return []
    with open(p) as f:
        return json.load(f)["findings"]


def open_signatures(pid):
    return {f["signature"]: f for f in load_findings() if f["property"] == pid and f["status"] == "open"}


def _worker_env():
    e = dict(os.environ)
    e["PYTHONDONTWRITEBYTECODE"] = "1"
    e["PYTHONHASHSEED"] = "0"
    e["OMP_NUM_THREADS"] = "1"
    e["MKL_NUM_THREADS"] = "1"
    e["PYTHONPATH"] = VERIF + os.pathsep + e.get("PYTHONPATH", "")
    e["PYTHONWARNINGS"] = "ignore"
    return e


def _spawn(spec, flags=()):
    cmd = [PY, *flags, "-m", "vlib.worker", json.dumps(spec)]
    log = open(spec["result"] + ".log", "w")
    return subprocess.Popen(cmd, cwd=VERIF, env=_worker_env(), stdout=log, stderr=subprocess.STDOUT), log


def run_pool(specs):
    """Run worker specs, at most MAXPROC at a time. Returns list of (spec, returncode)."""
    pending = list(specs)
    running = []
    done = []
    while pending or running:
        while pending and len(running) < MAXPROC:
            spec = pending.pop(0)
            p, log = _spawn(spec, spec.get("python_flags", ()))
            running.append((spec, p, log))
        time.sleep(0.05)
        still = []
        for spec, p, log in running:
            rc = p.poll()
            if rc is None:
                still.append((spec, p, log))
            else:
                log.close()
                done.append((spec, rc))
        running = still
    return done


def slug(s):
    return re.sub(r"[^A-Za-z0-9_.-]+", "_", s)[:80]


def write_replay(pid, sub, sig, msg, case, seed, tier):
    d = os.path.join(VERIF, "replays", pid)
    os.makedirs(d, exist_ok=True)
    h = hashlib.blake2b(json.dumps(case, sort_keys=True, default=str).encode(), digest_size=4).hexdigest()
    path = os.path.join(d, f"{slug(sig)}-{h}.json")
    with open(path, "w") as f:
        json.dump(
            {"property": pid, "sub": sub, "signature": sig, "message": msg, "seed": seed, "tier": tier, "case": case},
            f,
            indent=1,
            default=str,
        )
    return path


def _tail(path, n=15):
    try:
        with open(path) as f:
            return "".join(f.readlines()[-n:])
    except OSError:
        return ""


def main(argv=None):
    import argparse

    ap = argparse.ArgumentParser()
    ap.add_argument("check")
    ap.add_argument("--tier", default=os.environ.get("VERIF_TIER") or "quick", choices=["quick", "thorough"])
    ap.add_argument("--replay")
    ap.add_argument("--only", help="run only this sub-check")
    ap.add_argument("--scale", type=float, default=float(os.environ.get("VERIF_SCALE", "1")))
    args = ap.parse_args(argv)
    try:
        seed = int(os.environ.get("VERIF_SEED") or "1")
    except ValueError:
        seed = 1
    pid = args.check.upper()
    t0 = time.time()
    sys.path.insert(0, VERIF)
    from checks import plans

    if pid not in plans.CHECKS:
        print(f"HARNESS-ERROR unknown check {pid}")
        return 2
    meta = plans.CHECKS[pid]
    modname = meta.MODULE
    known = open_signatures(pid)
    rundir = os.path.join(VERIF, ".run", f"{pid}-{os.getpid()}")
    shutil.rmtree(rundir, ignore_errors=True)
    os.makedirs(rundir)
    flags = tuple(getattr(meta, "PYTHON_FLAGS", ()))

    def base_spec(sub, shard, nshards, params, mode="run"):
        return {
            "module": modname,
            "check": pid,
            "sub": sub,
            "tier": args.tier,
            "seed": seed,
            "shard": shard,
            "nshards": nshards,
            "outdir": rundir,
            "known_open": sorted(known),
            "params": dict(params, scale=args.scale),
            "mode": mode,
            "python_flags": flags,
            "result": os.path.join(rundir, f"res-{mode}-{sub}-{shard}.json"),
        }

    if getattr(meta, "NEEDS_CPPEXT", False):
        r = subprocess.run([PY, "-m", "vlib.cppext"], cwd=VERIF, env=_worker_env(), capture_output=True, text=True)
        if r.returncode != 0:
            # a kernel that no longer compiles is a property of the tree, but not one this check can decide
            print("HARNESS-ERROR C++ extension does not build from the current sources:\n" + r.stdout[-2000:] + r.stderr[-2000:])
            shutil.rmtree(rundir, ignore_errors=True)
            return 2

    violations = []  # (sig, msg, case, sub)
    harness_errors = []

    # ---------------- replay mode
    if args.replay:
        with open(args.replay) as f:
            rp = json.load(f)
        spec = base_spec(rp["sub"], 0, 1, {}, mode="replay")
        spec["case"] = rp["case"]
        (spec, rc), = run_pool([spec])
        if rc == 0 and os.path.exists(spec["result"]):
            with open(spec["result"]) as f:
                res = json.load(f)
            fails = [(s, m) for s, m in res["failures"]]
            bad = [(s, m) for s, m in fails if s not in known]
            for s, m in fails:
                if s in known:
                    print(f"KNOWN-FINDING: property={pid} {known[s]['what_fails']}")
            if bad:
                for s, m in bad:
                    print(f"  still fails: {s}: {m}")
                print(f"VIOLATION property={pid} replay={os.path.abspath(args.replay)}")
                shutil.rmtree(rundir, ignore_errors=True)
                return 1
            print(f"replay passes: {args.replay}")
            shutil.rmtree(rundir, ignore_errors=True)
            return 0
        if rc < 0 and rc != -signal.SIGKILL:
            print(f"  worker died with signal {-rc}")
            print(f"VIOLATION property={pid} replay={os.path.abspath(args.replay)}")
            shutil.rmtree(rundir, ignore_errors=True)
            return 1
        print("HARNESS-ERROR replay worker failed:\n" + _tail(spec["result"] + ".log"))
        return 2

    # ---------------- corpus (regression replays of everything found during development), then the plan
    specs = []
    corpus = sorted(glob.glob(os.path.join(VERIF, "corpus", pid, "*.json")))
    corpus_cases = []
    for path in corpus:
        with open(path) as f:
            rp = json.load(f)
        corpus_cases.append((path, rp))
    by_sub = {}
    for path, rp in corpus_cases:
        by_sub.setdefault(rp["sub"], []).append((path, rp))
    for sub, items in by_sub.items():
        for i, (path, rp) in enumerate(items):
            spec = base_spec(sub, i, len(items), {}, mode="replay")
            spec["case"] = rp["case"]
            spec["corpus_path"] = path
            spec["result"] = os.path.join(rundir, f"res-corpus-{sub}-{i}.json")
            specs.append(spec)
    plan = meta.PLAN[args.tier]
    for sub, nshards, params in plan:
        if args.only and sub != args.only:
            continue
        for shard in range(nshards):
            specs.append(base_spec(sub, shard, nshards, params))

    done = run_pool(specs)

    agg = {
        "evaluations": 0,
        "discarded": 0,
        "nontrivial": set(),
        "classes": Counter(),
        "samples": [],
        "known_hits": Counter(),
        "known_examples": {},
        "excluded": Counter(),
        "per_sub": {},
        "exhaustive": [],
        "extra": {},
        "corpus_replayed": 0,
    }
    for spec, rc in done:
        sub = spec["sub"]
        res = None
        if rc == 0 and os.path.exists(spec["result"]):
            with open(spec["result"]) as f:
                res = json.load(f)
        if res is None:
            jpath = os.path.join(rundir, f"journal-{sub}-{spec['shard']}.json")
            case = None
            try:
                with open(jpath) as f:
                    case = json.load(f)
            except (OSError, ValueError):
                pass
            if rc < 0 and rc != -signal.SIGKILL and (case is not None or spec["mode"] == "replay"):
                signame = signal.Signals(-rc).name
                violations.append((f"{sub}/crash/{signame}", f"worker process died with {signame} while executing this case",
                                   case if case is not None else spec.get("case"), sub))
            else:
                harness_errors.append(f"{sub} shard {spec['shard']} rc={rc}\n" + _tail(spec["result"] + ".log"))
            continue
        if spec["mode"] == "replay":
            agg["corpus_replayed"] += 1
            agg["evaluations"] += 1
            for s, m in res["failures"]:
                if s in known:
                    agg["known_hits"][s] += 1
                    agg["known_examples"].setdefault(s, {"case": spec["case"], "msg": m})
                else:
                    violations.append((s, m + f" (corpus {os.path.basename(spec['corpus_path'])})", spec["case"], sub))
            continue
        agg["evaluations"] += res["evaluations"]
        agg["discarded"] += res["discarded"]
        agg["nontrivial"].update(sub + ":" + x for x in res["nontrivial"])
        agg["classes"].update({f"{sub}:{k}": v for k, v in res["classes"].items()})
        if len([s for s in agg["samples"] if s["sub"] == sub]) < 3:
            for c in res["samples"][:2]:
                agg["samples"].append({"sub": sub, "case": c})
        agg["known_hits"].update(res["known_hits"])
        for s, v in res["known_examples"].items():
            agg["known_examples"].setdefault(s, v)
        agg["excluded"].update(res["excluded"])
        ps = agg["per_sub"].setdefault(sub, {"evaluations": 0, "distinct_nontrivial": 0, "shards": 0, "wall_s": 0.0})
        ps["evaluations"] += res["evaluations"]
        subset = agg.setdefault("per_sub_sets", {}).setdefault(sub, set())
        subset.update(res["nontrivial"])
        ps["distinct_nontrivial"] = len(subset)  # union over the shards (a fingerprint met by two shards counts once)
        ps["shards"] += 1
        ps["wall_s"] = round(max(ps["wall_s"], res["wall_s"]), 1)
        if res.get("exhaustive"):
            agg.setdefault("exhaustive_subs", set()).add(sub)
            if res["exhaustive"] not in agg["exhaustive"]:
                agg["exhaustive"].append(res["exhaustive"])
        for k, v in (res.get("extra") or {}).items():
            if isinstance(v, (int, float)):
                agg["extra"][k] = agg["extra"].get(k, 0) + v
            elif isinstance(v, dict):
                d = agg["extra"].setdefault(k, {})
                for kk, vv in v.items():
                    d[kk] = d.get(kk, 0) + vv if isinstance(vv, (int, float)) else vv
            else:
                agg["extra"].setdefault(k, v)
        for s, v in res["found"].items():
            violations.append((s, v["msg"], v["case"], sub))

    # ---------------- report
    status = 0
    seen = {}
    for sig, msg, case, sub in violations:
        if sig in seen:
            continue
        seen[sig] = write_replay(pid, sub, sig, msg, case, seed, args.tier)
    for sig, path in seen.items():
        msg = next(m for s, m, c, sb in violations if s == sig)
        print(f"  [{sig}] {msg}")
        print(f"VIOLATION property={pid} replay={path}")
        status = 1
    for sig in sorted(agg["known_hits"]):
        print(f"KNOWN-FINDING: property={pid} {known[sig]['what_fails']} (signature {sig}, met {agg['known_hits'][sig]}x)")
    if harness_errors:
        for h in harness_errors[:3]:
            print("HARNESS-ERROR " + h)
        if len(harness_errors) > 3:
            print(f"HARNESS-ERROR ... and {len(harness_errors) - 3} more shards")
        if status == 0:
            status = 2

    wall = time.time() - t0
    # the run as a whole is exhaustive only if EVERY sub-check of the plan enumerated its (finite) sub-domain completely
    all_exh = bool(agg["exhaustive"]) and agg.get("exhaustive_subs", set()) >= {s for s, _, _ in plan} and not args.only
    cov = {
        "evaluations": agg["evaluations"],
        "distinct_nontrivial": len(agg["nontrivial"]),
        "rule": meta.RULE,
        "samples": agg["samples"][:12],
        "per_subcheck": agg["per_sub"],
        "classes": dict(sorted(agg["classes"].items(), key=lambda kv: -kv[1])[:600]),
        "discarded_out_of_domain": agg["discarded"],
        "excluded_by_signature": dict(agg["excluded"]),
        "known_findings_met": dict(agg["known_hits"]),
        "corpus_replayed": agg["corpus_replayed"],
        "exhaustive_subdomains": agg["exhaustive"],
        "exhaustive": all_exh,
        "new_signatures": sorted(seen),
    }
    cov.update(agg["extra"])
    ev = {
        "property_id": pid,
        "tier": args.tier,
        "seed": seed,
        "level": meta.LEVEL,
        "coverage": cov,
        "assumptions": list(meta.ASSUMPTIONS),
        "wall_s": round(wall, 2),
        "violations": len(seen),
    }
    if not args.only and status != 2:
        # evidence describes /repo itself; a run against a scratch copy (VERIF_REPO, sensitivity harness) writes elsewhere
        alt = os.path.realpath(os.environ.get("VERIF_REPO", "/repo")) != "/repo"
        evdir = os.path.join(VERIF, ".run", "evidence-scratch") if alt else os.path.join(VERIF, "evidence")
        os.makedirs(evdir, exist_ok=True)
        with open(os.path.join(evdir, f"{pid}.json"), "w") as f:
            json.dump(ev, f, indent=1, default=str)
    print(
        f"{pid} {args.tier} seed={seed}: {agg['evaluations']} cases, {len(agg['nontrivial'])} distinct non-trivial, "
        f"{len(seen)} new signatures, {sum(agg['known_hits'].values())} known-finding hits, {wall:.1f}s"
    )
    for sub, ps in agg["per_sub"].items():
        print(f"   {sub}: {ps}")
    shutil.rmtree(rundir, ignore_errors=True)
    return status


if __name__ == "__main__":
    sys.exit(main())
