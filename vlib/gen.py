"""Shared generators: everything is built from Hypothesis-drawn integers so that a case is explicit JSON.

Tensors are described either by explicit integer lists (bit patterns / codes) or by ("seed", recipe) pairs that are
expanded deterministically with a torch.Generator — the seed is part of the case, so replay and shrinking work.
"""
import math

import torch
from hypothesis import strategies as st

DT = {"fp32": torch.float32, "fp16": torch.float16, "bf16": torch.bfloat16, "fp64": torch.float64}
DTN = {v: k for k, v in DT.items()}
INT_OF = {torch.float32: torch.int32, torch.float16: torch.int16, torch.bfloat16: torch.int16}
U = {torch.float32: 2.0**-24, torch.float16: 2.0**-11, torch.bfloat16: 2.0**-8, torch.float64: 2.0**-53}
ETA = {torch.float32: 2.0**-149, torch.float16: 2.0**-24, torch.bfloat16: 2.0**-133, torch.float64: 0.0}
MINNORMAL = {torch.float32: 2.0**-126, torch.float16: 2.0**-14, torch.bfloat16: 2.0**-126, torch.float64: 2.0**-1022}
FMAX = {d: torch.finfo(d).max for d in (torch.float32, torch.float16, torch.bfloat16, torch.float64)}

dtypes = st.sampled_from(["fp32", "fp16", "bf16"])


def from_bits(bits, dtype):
    """Tensor of `dtype` from a list / tensor of raw integer bit patterns."""
    it = INT_OF[dtype]
    t = torch.as_tensor(bits, dtype=torch.int64)
    if it == torch.int16:
        t = ((t + 2**15) % 2**16 - 2**15).to(torch.int16)
    else:
        t = ((t + 2**31) % 2**32 - 2**31).to(torch.int32)
    return t.view(dtype)


def to_bits(t):
    it = INT_OF[t.dtype]
    b = t.contiguous().view(it).to(torch.int64)
    return (b % (2**16 if it == torch.int16 else 2**32)).tolist()


def all_finite(dtype):
    """Every finite value of a 16-bit float dtype (both signs, both zeros, subnormals)."""
    assert dtype in (torch.float16, torch.bfloat16)
    v = torch.arange(0, 2**16, dtype=torch.int32).to(torch.int16).view(dtype)
    return v[torch.isfinite(v)]


def positive_finite_bits(dtype):
    """Bit patterns of every positive finite value of a 16-bit dtype (subnormals included), ascending."""
    v = torch.arange(1, 2**15, dtype=torch.int32)
    f = v.to(torch.int16).view(dtype)
    return v[torch.isfinite(f)].tolist()


# ----------------------------------------------------------------------------- shapes and layouts

def shapes(min_rank=1, max_rank=4, min_dim=1, max_dim=6):
    return st.lists(st.integers(min_dim, max_dim), min_size=min_rank, max_size=max_rank)


layouts = st.tuples(st.sampled_from(["contig", "contig", "perm", "slice", "expand", "offset"]), st.integers(0, 23))


def apply_layout(v, layout):
    """Return a tensor with the shape of `v` laid out as requested.  For every kind but 'expand' the values are
    those of `v`; 'expand' makes one dim constant (that is what an expanded tensor is)."""
    kind, k = layout
    if v.ndim == 0 or kind == "contig":
        return v.contiguous()
    if kind == "perm":
        import itertools

        perms = list(itertools.permutations(range(v.ndim)))
        perm = perms[k % len(perms)]
        inv = [perm.index(i) for i in range(v.ndim)]
        return v.permute(perm).contiguous().permute(inv)
    if kind == "slice":
        d = k % v.ndim
        shape = list(v.shape)
        shape[d] = shape[d] * 2 + 1
        big = torch.zeros(shape, dtype=v.dtype)
        idx = [slice(None)] * v.ndim
        idx[d] = slice(1, None, 2)
        big[tuple(idx)] = v
        return big[tuple(idx)]
    if kind == "expand":
        d = k % v.ndim
        return v.select(d, 0).unsqueeze(d).contiguous().expand(v.shape)
    if kind == "offset":
        flat = torch.zeros(v.numel() + 3, dtype=v.dtype)
        flat[3:] = v.reshape(-1)
        return flat[3:].view(v.shape)
    raise ValueError(kind)


def divisors(n):
    return [d for d in range(1, n + 1) if n % d == 0]


# ----------------------------------------------------------------------------- row classes (C02 C03 C16)

ROW_CLASSES = [
    "zeros",
    "const",
    "pos",
    "neg",
    "offset",
    "straddle",
    "single",
    "subnormal",
    "nearmax",
    "wide",
    "tiny",
]


def make_row(klass, n, dtype, gen, mag):
    """One row/group of n values of the given class, float64 (caller casts to dtype). `mag` is the row magnitude."""
    r = torch.rand(n, generator=gen, dtype=torch.float64)
    sgn = 1.0 if torch.rand((), generator=gen).item() < 0.5 else -1.0
    if klass == "zeros":
        return torch.zeros(n, dtype=torch.float64)
    if klass == "const":
        return torch.full((n,), sgn * mag, dtype=torch.float64)
    if klass == "pos":
        return (0.05 + r) * mag
    if klass == "neg":
        return -(0.05 + r) * mag
    if klass == "offset":
        eps = 10.0 ** -(1 + 3 * torch.rand((), generator=gen).item())
        return sgn * mag * (1.0 + eps * (r - 0.5))
    if klass == "straddle":
        return (2 * r - 1) * mag
    if klass == "single":
        v = torch.zeros(n, dtype=torch.float64)
        v[int(torch.randint(0, n, (), generator=gen))] = sgn * mag
        return v
    if klass == "subnormal":
        return (2 * r - 1) * MINNORMAL[dtype] * 0.9
    if klass == "nearmax":
        return (2 * r - 1) * FMAX[dtype] * 0.999
    if klass == "wide":
        e = torch.rand(n, generator=gen, dtype=torch.float64) * 8 - 6
        return (2 * (torch.rand(n, generator=gen, dtype=torch.float64) < 0.5).double() - 1) * mag * 10.0**e
    if klass == "tiny":
        return (2 * r - 1) * MINNORMAL[dtype] * 64
    raise ValueError(klass)


def clamp_finite(x, dtype):
    m = FMAX[dtype]
    return x.clamp(-m, m).to(dtype)
