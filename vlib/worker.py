"""One shard of one sub-check, in its own process.  python -m vlib.worker <json-spec>"""
import importlib
import json
import os
import sys


def _coverage_start():
    """VERIF_COV=<dir>: record which lines of optimum/quanto this shard executes (sys.monitoring, each line reported once).
    Diagnostic for generator completeness only (tools/cov_report.py); never part of a verdict."""
    mon = sys.monitoring
    tool = mon.COVERAGE_ID
    mon.use_tool_id(tool, "verifcov")
    hits = set()

    def on_line(code, line):
        fn = code.co_filename
        if "/optimum/quanto/" in fn:
            hits.add((fn, line))
        return mon.DISABLE

    mon.register_callback(tool, mon.events.LINE, on_line)
    mon.set_events(tool, mon.events.LINE)
    return hits


def _coverage_dump(hits, spec):
    d = os.environ["VERIF_COV"]
    os.makedirs(d, exist_ok=True)
    with open(os.path.join(d, f"{spec['check']}-{spec['sub']}-{spec['shard']}-{os.getpid()}.json"), "w") as f:
        json.dump(sorted(hits), f)


def main():
    spec = json.loads(sys.argv[1])
    hits = _coverage_start() if os.environ.get("VERIF_COV") else None
    from . import env

    env.setup()
    from . import core

    mod = importlib.import_module("checks." + spec["module"])
    ctx = core.Ctx(
        spec["check"],
        spec["sub"],
        spec["tier"],
        spec["seed"],
        spec["shard"],
        spec["nshards"],
        spec["outdir"],
        known_open=spec.get("known_open", ()),
        params=spec.get("params"),
    )
    if spec.get("mode") == "replay":
        case = spec["case"]
        ctx.journal(case)
        out = mod.SUBCHECKS[spec["sub"]]["execute"](case)
        res = {"failures": out.failures, "discard": out.discard}
    else:
        mod.SUBCHECKS[spec["sub"]]["run"](ctx)
        res = ctx.result()
    if hits is not None:
        _coverage_dump(hits, spec)
    tmp = spec["result"] + ".tmp"
    with open(tmp, "w") as f:
        json.dump(res, f, default=str)
    os.replace(tmp, spec["result"])


if __name__ == "__main__":
    from .core import harness_guard

    harness_guard(main)()
    sys.stdout.flush()
    os._exit(0)  # skip interpreter teardown (torch extension / hypothesis atexit noise)
