"""One shard of one sub-check, in its own process.  python -m vlib.worker <json-spec>"""
import importlib
import json
import os
import sys


def main():
    spec = json.loads(sys.argv[1])
    from . import env

    env.setup()
    from . import core

    mod = importlib.import_module("checks." + spec["module"])
    ctx = core.Ctx(
        spec["check"],
        spec["sub"],
        spec["tier"],
        spec["seed"],
        spec["shard"],
        spec["nshards"],
        spec["outdir"],
        known_open=spec.get("known_open", ()),
        params=spec.get("params"),
    )
    if spec.get("mode") == "replay":
        case = spec["case"]
        ctx.journal(case)
        out = mod.SUBCHECKS[spec["sub"]]["execute"](case)
        res = {"failures": out.failures, "discard": out.discard}
    else:
        mod.SUBCHECKS[spec["sub"]]["run"](ctx)
        res = ctx.result()
    tmp = spec["result"] + ".tmp"
    with open(tmp, "w") as f:
        json.dump(res, f, default=str)
    os.replace(tmp, spec["result"])


if __name__ == "__main__":
    from .core import harness_guard

    harness_guard(main)()
    sys.stdout.flush()
    os._exit(0)  # skip interpreter teardown (torch extension / hypothesis atexit noise)
