"""Process environment for every worker: import quanto from the tree under test, pin threads.

The code under test is imported from ${VERIF_REPO:-/repo}.  quanto is pure Python, so "rebuilding from the
working tree" is an import of the current sources; the only compiled artefact (the C++ unpack kernel) is rebuilt by
vlib.cppext from a content hash of its sources.
"""
import os
import sys
import warnings

REPO = os.path.realpath(os.environ.get("VERIF_REPO", "/repo"))
VERIF = os.path.dirname(os.path.dirname(os.path.abspath(__file__)))

_done = False


def setup():
    global _done
    if _done:
        return
    _done = True
    os.environ.setdefault("OMP_NUM_THREADS", "1")
    os.environ.setdefault("MKL_NUM_THREADS", "1")
    sys.dont_write_bytecode = True
    if REPO in sys.path:
        sys.path.remove(REPO)
    sys.path.insert(0, REPO)
    if VERIF not in sys.path:
        sys.path.insert(1, VERIF)
    warnings.filterwarnings("ignore", message=".*Falling back to default implementation.*")
    import torch

    torch.set_num_threads(1)
    try:
        torch.set_num_interop_threads(1)
    except RuntimeError:
        pass
    import optimum.quanto as q

    where = os.path.realpath(q.__file__)
    if not where.startswith(REPO + os.sep):
        raise RuntimeError(f"HARNESS-ERROR optimum.quanto imported from {where}, expected under {REPO}")
    # The compiled unpack kernel: use the library built by vlib.cppext for the CURRENT sources if it exists (direct import, no
    # build, no lock); otherwise leave the extension unbuildable (ninja is not on PATH in workers), so that quanto warns and
    # falls back to its python kernel exactly as it does in the repository's own test runs. Nothing is ever built into the
    # tree under test, and no worker ever waits on a build lock.
    try:
        from optimum.quanto.library.ext.cpp import ext as _ext

        _ext.build_directory = os.path.join(VERIF, ".build", "never-built")
        from . import cppext

        cppext.attach(build=False)
    except Exception:
        pass
