"""Shared oracles. All reference arithmetic is float64 on exact conversions of the stored operands."""
import ast
import math

import torch

from . import gen
from .core import Raised, cut

from optimum.quanto import QBitsTensor, QBytesTensor, QTensor, qfloat8_e4m3fn, qfloat8_e5m2, qint2, qint4, qint8, qtypes
from optimum.quanto.tensor.qbits.packed import PackedTensor

QT8 = {"qint8": qint8, "qfloat8_e4m3fn": qfloat8_e4m3fn, "qfloat8_e5m2": qfloat8_e5m2}
QTALL = dict(QT8, qint4=qint4, qint2=qint2)

_GRIDS = {}


def grid(qtype):
    """G — every value representable in the 8-bit storage type, as a sorted float64 tensor (never a formula)."""
    if qtype.name not in _GRIDS:
        if qtype.is_floating_point:
            v = torch.arange(256, dtype=torch.int32).to(torch.uint8).view(qtype.dtype).to(torch.float64)
            v = v[torch.isfinite(v)]
        else:
            v = torch.arange(-128, 128, dtype=torch.float64)
        _GRIDS[qtype.name] = torch.unique(v)  # sorted, -0/+0 merged
    return _GRIDS[qtype.name]


def nearest_dist(q, G):
    """distance of each element of q (float64) to the grid G, for q anywhere on the real line"""
    qc = q.clamp(G[0], G[-1])
    idx = torch.searchsorted(G, qc.contiguous()).clamp(1, len(G) - 1)
    lo, hi = G[idx - 1], G[idx]
    return torch.minimum((q - lo).abs(), (q - hi).abs()), lo, hi


def ulp(v, dtype):
    """unit in the last place of |v| (float64 tensor) in `dtype`, never below the subnormal quantum"""
    p = {torch.float32: 23, torch.float16: 10, torch.bfloat16: 7}[dtype]
    a = v.abs().clamp_min(gen.MINNORMAL[dtype])
    e = torch.floor(torch.log2(a))
    return torch.maximum(torch.pow(2.0, e - p), torch.tensor(gen.ETA[dtype], dtype=torch.float64))


def codes64(qt):
    """payload of a QBytesTensor as float64"""
    d = qt._data
    return d.to(torch.float32).to(torch.float64) if d.dtype != torch.int8 else d.to(torch.float64)


def check_N(out, tag, x, scale, q, qtype, idem=None, want_axis="any", mixed=False):
    """Oracle N (DESIGN 1.5) for one 8-bit symmetric quantization  q = quantize(x, scale).

    x: source float tensor; scale: tensor broadcastable to x (the one handed to / chosen by quanto).
    Returns a dict of element-class counts used for the non-triviality rule.
    """
    dtype = x.dtype
    u, eta = gen.U[dtype], gen.ETA[dtype]
    if not isinstance(q, QBytesTensor):
        out.fail(f"{tag}/form", f"result is {type(q).__name__}, not a QBytesTensor")
        return {}, None, None
    if mixed and q.dtype in (x.dtype, scale.dtype):
        # scale of another float dtype than the tensor: the property fixes the values, not which of the two dtypes the
        # result carries; the rounding allowance is that of the coarser dtype, dequantization is judged in the result's dtype
        u, eta = max(u, gen.U[scale.dtype]), max(eta, gen.ETA[scale.dtype])
        dtype = q.dtype
    if tuple(q.shape) != tuple(x.shape) or q.dtype != dtype or q._data.dtype != qtype.dtype or q.qtype != qtype:
        out.fail(f"{tag}/form", f"shape {tuple(q.shape)} dtype {q.dtype} payload {q._data.dtype} for source {tuple(x.shape)} {dtype} {qtype.name}")
        return {}, None, None
    if tuple(q._data.shape) != tuple(x.shape):
        out.fail(f"{tag}/form", f"payload shape {tuple(q._data.shape)} != {tuple(x.shape)}")
        return {}, None, None
    G = grid(qtype)
    x64 = x.to(torch.float64)
    s64 = scale.to(torch.float64).expand(x.shape) if scale.ndim else scale.to(torch.float64)
    c = codes64(q)
    stats = {}
    if not bool(torch.isfinite(c).all()):
        n = int((~torch.isfinite(c)).sum())
        out.fail(f"{tag}/code-not-in-grid", f"{n} codes are NaN/Inf in the {qtype.name} payload")
        return stats, None, None
    qq = x64 / s64
    dist, lo, hi = nearest_dist(qq, G)
    tol = 2 * (qq.abs() * u + eta)
    tol = torch.where(torch.isfinite(tol), tol, torch.zeros_like(tol))
    err = (c - qq).abs()
    inside = (qq > G[0]) & (qq < G[-1])
    bad = inside & (err > dist + tol)
    if bool(bad.any()):
        i = int(torch.nonzero(bad.reshape(-1))[0])
        out.fail(
            f"{tag}/not-nearest",
            f"{int(bad.sum())} elements: e.g. x={x64.reshape(-1)[i].item()!r} scale={s64.reshape(-1)[i].item() if s64.ndim else s64.item()!r} "
            f"x/s={qq.reshape(-1)[i].item()!r} code={c.reshape(-1)[i].item()} nearest in ({lo.reshape(-1)[i].item()},{hi.reshape(-1)[i].item()})",
        )
    over, under = qq >= G[-1], qq <= G[0]
    bs = (over & (c != G[-1])) | (under & (c != G[0]))
    if bool(bs.any()):
        i = int(torch.nonzero(bs.reshape(-1))[0])
        out.fail(
            f"{tag}/saturate",
            f"{int(bs.sum())} elements beyond the grid do not sit on its end point: x/s={qq.reshape(-1)[i].item()!r} code={c.reshape(-1)[i].item()}",
        )
    # dequantization = scale * code rounded once to the dtype
    d = cut(q.dequantize)
    if isinstance(d, Raised):
        out.fail(f"{tag}/dequantize/raises:{d.type}", d.text)
        return stats, None, None
    if d.dtype != dtype or tuple(d.shape) != tuple(x.shape):
        out.fail(f"{tag}/dequantize/form", f"{d.dtype} {tuple(d.shape)}")
        return stats, None, None
    prod = s64 * c
    want = prod.to(dtype)
    d64, w64 = d.to(torch.float64), want.to(torch.float64)
    same_inf = torch.isinf(w64) & (d64 == w64)
    bd = ~same_inf & ~((d64 - w64).abs() <= 2 * ulp(w64, dtype))
    if bool(bd.any()):
        i = int(torch.nonzero(bd.reshape(-1))[0])
        out.fail(
            f"{tag}/dequantize/value",
            f"{int(bd.sum())} elements: scale*code={prod.reshape(-1)[i].item()!r} dequantized={d64.reshape(-1)[i].item()!r}",
        )
    # the dequantized tensor belongs to the caller: updating it in place must not change what the quantized tensor holds
    if d.numel() and not d.is_inference():
        d.zero_()
        d2 = cut(q.dequantize)
        if isinstance(d2, Raised) or not torch.equal(d2.to(torch.float64).nan_to_num(), d64.nan_to_num()):
            out.fail(f"{tag}/dequantize/changed-by-caller-update", "a second dequantize() differs after the first result was updated in place")
    half = (lo + hi) / 2
    stats = {
        "over": int(over.sum()),
        "under": int(under.sum()),
        "mid": int((inside & ((qq - half).abs() <= tol + 1e-300)).sum()),
        "interior": int((inside & ((qq - half).abs() > tol)).sum()),
    }
    if idem is None:
        idem = dtype in (torch.float32, torch.float16)
    if idem:
        ok = torch.isfinite(w64) & (prod.abs() >= gen.MINNORMAL[dtype])
        ok = ok | (c == 0)
        stats["idem_excluded"] = int((~ok).sum())
        return stats, ok, c
    return stats, None, c


def check_idem(out, tag, q2, ok, c):
    if isinstance(q2, Raised):
        out.fail(f"{tag}/requantize/raises:{q2.type}", q2.text)
        return
    c2 = codes64(q2)
    bad = ok & (c2 != c)
    if bool(bad.any()):
        i = int(torch.nonzero(bad.reshape(-1))[0])
        out.fail(f"{tag}/not-idempotent", f"{int(bad.sum())} elements change code when the dequantized tensor is quantized again: {c.reshape(-1)[i].item()} -> {c2.reshape(-1)[i].item()}")


# ----------------------------------------------------------------------------- affine (2/4 bit)

def ref_group_index(shape, axis, group_size):
    """My own index arithmetic for groups (from the docstrings): returns an int64 tensor of `shape` giving, for each
    element, the id of the group whose scale/zero-point applies to it, and the number of groups.

    axis 0  -> groups are consecutive chunks of group_size elements of each row (row = index of the first dim);
    axis -1 -> for each last-axis index, groups are consecutive chunks along the flattened leading dims.
    group ids are numbered in the order quanto lays the scales out: axis 0 -> (row, chunk) row-major;
    axis -1 -> column id = last_index * n_chunks + chunk.
    """
    numel = 1
    for s in shape:
        numel *= s
    if len(shape) == 1:
        # rank-1: the whole tensor is one row (axis 0 of a vector keeps every element its own 'row' in quanto's
        # reduction: dims 1.. are empty), handled by the caller
        raise ValueError
    if axis == 0:
        rows = shape[0]
        per = numel // rows
        gs = per if group_size is None else group_size
        n_chunks = per // gs
        r = torch.arange(rows).reshape(rows, 1)
        k = (torch.arange(per) // gs).reshape(1, per)
        return (r * n_chunks + k).reshape(shape), rows * n_chunks
    cols = shape[-1]
    per = numel // cols
    gs = per if group_size is None else group_size
    n_chunks = per // gs
    lead = (torch.arange(per) // gs).reshape(per, 1)
    col = torch.arange(cols).reshape(1, cols)
    return (col * n_chunks + lead).reshape(shape), cols * n_chunks


def unpacked_codes(q):
    """codes of a QBitsTensor, un-grouped back to q.shape, as float64; plus per-element scale / zero-point"""
    from optimum.quanto.tensor.qbits.group import ungroup

    data = q._data.unpack() if isinstance(q._data, PackedTensor) else q._data
    codes = data.to(torch.float64)
    s = q._scale.to(torch.float64).expand(codes.shape)
    z = q._zeropoint.to(torch.float64).expand(codes.shape)
    if q.axis is not None and tuple(codes.shape) != tuple(q.shape):
        codes, s, z = (ungroup(t.contiguous(), q.axis, q.shape) for t in (codes, s, z))
    return codes, s, z


def affine_bound(x64, gid, ngroups, bits, dtype):
    """Oracle A: per element bound  step/2 + rounding, with [lo,hi] the smallest interval containing the group and 0"""
    flat = x64.reshape(-1)
    g = gid.reshape(-1)
    lo = torch.zeros(ngroups, dtype=torch.float64).scatter_reduce(0, g, flat, "amin", include_self=True)
    hi = torch.zeros(ngroups, dtype=torch.float64).scatter_reduce(0, g, flat, "amax", include_self=True)
    step = (hi - lo) / (2**bits - 1)
    u, eta = gen.U[dtype], gen.ETA[dtype]
    # the scale itself is only representable to eta/2 in the subnormal range and is multiplied by codes up to 2^bits-1
    bound = step / 2 + 4 * u * torch.maximum(lo.abs(), hi.abs()) + 4 * u * step * (2**bits) + (2**bits + 2) * eta
    return bound[g].reshape(x64.shape), step[g].reshape(x64.shape), lo, hi


# ----------------------------------------------------------------------------- invariant I (C06)

def check_invariant(out, tag, t):
    """Structural invariants of a quantized tensor (DESIGN C06)."""
    if not isinstance(t, QTensor):
        return
    d = cut(t.dequantize)
    if isinstance(d, Raised):
        out.fail(f"{tag}/I/dequantize-raises:{d.type}", d.text)
        return
    kind = type(t).__name__
    if tuple(t.shape) != tuple(d.shape):
        out.fail(f"{tag}/I/shape", f"{kind} reports shape {tuple(t.shape)} but dequantizes to {tuple(d.shape)}")
        return
    if t.dtype != d.dtype or t.dtype != t._scale.dtype:
        out.fail(f"{tag}/I/dtype", f"reports {t.dtype}, dequantizes to {d.dtype}, scale is {t._scale.dtype}")
    if t.device != d.device or t.device != t._data.device or t._scale.device != t.device:
        out.fail(f"{tag}/I/device", f"reports {t.device}, payload on {t._data.device}, dequantizes on {d.device}")
    qt = t.qtype
    if isinstance(t, QBytesTensor):
        if type(t._data) is not torch.Tensor or tuple(t._data.shape) != tuple(t.shape):
            out.fail(f"{tag}/I/payload", f"payload {tuple(t._data.shape)} for outer shape {tuple(t.shape)}")
        if t._data.dtype != qt.dtype:
            out.fail(f"{tag}/I/qtype", f"qtype {qt.name} but payload dtype {t._data.dtype}")
        if qt.bits != 8:
            out.fail(f"{tag}/I/qtype", f"QBytesTensor with qtype {qt.name}")
        sc = t._scale
        if t.axis is None:
            if sc.numel() != 1:
                out.fail(f"{tag}/I/axis", f"axis None but scale has shape {tuple(sc.shape)}")
            elif sc.ndim not in (0, t.ndim) and sc.ndim > t.ndim:
                # a one-element scale with MORE dims than the tensor no longer broadcasts to the tensor's shape
                out.fail(f"{tag}/I/axis", f"per-tensor scale of shape {tuple(sc.shape)} on a tensor of rank {t.ndim}")
        else:
            ax = t.axis
            if ax not in (0, -1) or t.ndim < 2:
                out.fail(f"{tag}/I/axis", f"axis {ax} on rank {t.ndim}")
            else:
                want = [1] * t.ndim
                want[ax] = t.shape[ax]
                if list(sc.shape) != want:
                    out.fail(f"{tag}/I/axis", f"axis {ax} declared, outer shape {tuple(t.shape)}, scale shape {tuple(sc.shape)}")
    elif isinstance(t, QBitsTensor):
        if qt.bits not in (2, 4) or t._data.dtype != torch.uint8:
            out.fail(f"{tag}/I/qtype", f"{qt.name} payload {t._data.dtype}")
        data = t._data
        if not isinstance(data, PackedTensor):
            if type(t).__name__ == "QBitsTensor":
                out.fail(f"{tag}/I/payload", f"low-bit payload is not packed ({type(data).__name__})")
        else:
            if data._bits != qt.bits:
                out.fail(f"{tag}/I/qtype", f"qtype bits {qt.bits} != packed bits {data._bits}")
            un = data.unpack()
            if un.numel() != t.numel():
                out.fail(f"{tag}/I/payload", f"{un.numel()} codes for {t.numel()} elements")
            rows = un.shape[0]
            if tuple(data._data.shape) != (-(-rows * qt.bits // 8), *un.shape[1:]):
                out.fail(f"{tag}/I/payload", f"packed payload {tuple(data._data.shape)} for {tuple(un.shape)} codes of {qt.bits} bits")
            if un.numel() and int(un.max()) >= 2**qt.bits:
                out.fail(f"{tag}/I/payload", f"code {int(un.max())} does not fit {qt.bits} bits")
            gs = t._group_size
            ax = t.axis
            if ax not in (0, -1):
                out.fail(f"{tag}/I/axis", f"axis {ax}")
            else:
                per = t.numel() // t.shape[ax] if t.numel() else 0
                ng = t.shape[ax] * (per // gs if gs else 1)
                if t.ndim == 1 and gs is None:
                    want = (1,)  # a vector is one group: the whole tensor shares one scale
                elif gs is None:
                    want = [1] * t.ndim
                    want[ax] = t.shape[ax]
                    want = tuple(want)
                else:
                    want = (ng, 1) if ax == 0 else (1, ng)
                for nm, v in (("scale", t._scale), ("zeropoint", t._zeropoint)):
                    if tuple(v.shape) != want:
                        out.fail(f"{tag}/I/axis", f"{nm} shape {tuple(v.shape)}, expected {want} for axis {ax} group {gs} shape {tuple(t.shape)}")
                if t._zeropoint.dtype != torch.int8 and type(t).__name__ == "QBitsTensor":
                    out.fail(f"{tag}/I/zeropoint", f"zero-point dtype {t._zeropoint.dtype}")
    # flatten / unflatten agree with the live object
    fl = cut(t.__tensor_flatten__)
    if isinstance(fl, Raised):
        out.fail(f"{tag}/I/flatten-raises:{fl.type}", fl.text)
        return
    names, meta = fl
    try:
        if ast.literal_eval(meta["size"]) != list(t.size()) or list(ast.literal_eval(meta["stride"])) != list(t.stride()):
            out.fail(f"{tag}/I/meta", f"meta size/stride {meta['size']}/{meta['stride']} vs live {list(t.size())}/{list(t.stride())}")
        if ast.literal_eval(meta["axis"]) != t.axis or qtypes[meta["qtype"]] != t.qtype:
            out.fail(f"{tag}/I/meta", f"meta axis/qtype {meta['axis']}/{meta['qtype']}")
        if "group_size" in meta and ast.literal_eval(meta["group_size"]) != t._group_size:
            out.fail(f"{tag}/I/meta", f"meta group_size {meta['group_size']} vs {t._group_size}")
    except (ValueError, SyntaxError, KeyError) as e:
        out.fail(f"{tag}/I/meta", f"meta does not parse: {e!r}")
        return
    if type(t) in (QBytesTensor, QBitsTensor):
        r = cut(type(t).__tensor_unflatten__, {n: getattr(t, n) for n in names}, meta, None, None)
        if isinstance(r, Raised):
            out.fail(f"{tag}/I/unflatten-raises:{r.type}", r.text)
        else:
            d2 = cut(r.dequantize)
            if isinstance(d2, Raised) or tuple(d2.shape) != tuple(d.shape) or not torch.equal(d2.nan_to_num(), d.nan_to_num()):
                out.fail(f"{tag}/I/unflatten", "unflatten(flatten(t)) does not dequantize to the same tensor")
