#!/bin/sh
# Offline setup after a fresh restore: hypothesis into /venv if it is not there, C++ unpack kernel built from /repo's sources.
cd "$(dirname "$0")" || exit 2
PY=${VERIF_PYTHON:-/venv/bin/python}
"$PY" -c "import hypothesis" 2>/dev/null || "$PY" -m pip install -q --no-index --find-links /opt/veriftools/wheels hypothesis || exit 2
"$PY" -c "import hypothesis, torch; print('hypothesis', hypothesis.__version__, 'torch', torch.__version__)" || exit 2
PYTHONDONTWRITEBYTECODE=1 "$PY" -m vlib.cppext || exit 2
