#!/bin/sh
# validate MANIFEST.json and every evidence file against the schemas (jsonschema lives in the tooling venv)
python3-vt - <<'PY'
import json, glob, jsonschema
m = json.load(open('/verif/MANIFEST.json')); jsonschema.validate(m, json.load(open('/root/.vp/MANIFEST.schema.json'))); print('MANIFEST ok')
s = json.load(open('/root/.vp/EVIDENCE.schema.json'))
for p in sorted(glob.glob('/verif/evidence/*.json')):
    e = json.load(open(p)); jsonschema.validate(e, s); print(p, 'ok', e['tier'], e['coverage']['evaluations'], e['coverage']['distinct_nontrivial'])
PY
