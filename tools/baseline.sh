#!/bin/sh
# run the repository's pinned suite on /repo's working tree (guard off = as is) and compare with BASELINE.json's stable_pass
OUT=${1:-/tmp/baseline-run.xml}
cd /repo && OMP_NUM_THREADS=2 /venv/bin/python -m pytest -q -p no:cacheprovider -n 8 --timeout=900 --continue-on-collection-errors --junitxml=$OUT > /tmp/baseline-run.log 2>&1
/venv/bin/python - $OUT <<'PY'
import json, sys, xml.etree.ElementTree as ET
base = set(json.load(open('/root/.vp/BASELINE.json'))['stable_pass'])
passed = set()
for tc in ET.parse(sys.argv[1]).getroot().iter('testcase'):
    ok = not any(ch.tag in ('failure', 'error', 'skipped') for ch in tc)
    if ok:
        passed.add(f"{tc.get('classname')}::{tc.get('name')}")
missing = sorted(base - passed)
print(f"BASELINE: {len(base)} stable_pass, {len(base & passed)} pass now, {len(missing)} missing")
for m in missing[:20]:
    print("  MISSING", m)
sys.exit(1 if missing else 0)
PY
