#!/bin/sh
# tools/try_seed.sh <ID> [dir] [tier] — apply a seeded patch to /repo, run the property's check, undo. CAUGHT iff exit 1.
ID=$1; D=${2:-/verif/seeded/$ID}; T=${3:-quick}
[ -z "$(git -C /repo status --porcelain)" ] || { echo "/repo not clean"; exit 3; }
git -C /repo apply "$D/patch.diff" || { echo "TRY $ID: patch does not apply"; exit 3; }
/verif/check $ID --tier $T > /tmp/try-$ID.out 2>&1; rc=$?
git -C /repo checkout -- . 
grep -E "^\s+\[|^C[0-9]+ |HARNESS" /tmp/try-$ID.out | head -${LINES_MAX:-4} | cut -c1-230
echo "TRY $ID $(basename $D) rc=$rc -> $([ $rc -eq 1 ] && echo CAUGHT || echo MISSED)"
