#!/bin/sh
# tools/thorough.sh [ids...] — run the thorough tier of the given checks sequentially, log summary lines
cd /verif
for id in ${@:-C04 C05 C06 C07 C08 C09 C10 C11 C12 C13 C14 C15 C16}; do
  t0=$(date +%s)
  ./check $id --tier thorough > /tmp/thorough-$id.out 2>&1; rc=$?
  t1=$(date +%s)
  echo "$id rc=$rc $((t1-t0))s $(grep -c '^VIOLATION' /tmp/thorough-$id.out) violations $(grep -c HARNESS /tmp/thorough-$id.out) harness | $(grep "^$id thorough" /tmp/thorough-$id.out | cut -c1-160)"
done
