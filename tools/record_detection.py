#!/venv/bin/python
"""tools/record_detection.py [seed-dir-names...] — run every kept seeded change against the quick tier of its property's check
(scratch copy, /repo untouched) and record in seeded/<name>/meta.json which signatures reported it."""
import json, os, re, subprocess, sys

names = sys.argv[1:] or sorted(os.listdir("/verif/seeded"))
for n in names:
    d = os.path.join("/verif/seeded", n)
    pid = n.split("-")[0]
    mp0 = os.path.join(d, "meta.json")
    pid = json.load(open(mp0)).get("checked_with", pid)  # a seed whose violation belongs to a neighbouring property's clause
    r = subprocess.run(["/verif/tools/sens.py", pid, os.path.join(d, "patch.diff"), "--lines", "400"], capture_output=True, text=True)
    sigs = sorted(set(re.findall(r"^\s+\[([^\]]+)\]", r.stdout, flags=re.M)))
    verdict = r.stdout.strip().splitlines()[-1] if r.stdout.strip() else "?"
    mp = os.path.join(d, "meta.json")
    m = json.load(open(mp))
    m["detected_by"] = {"check": pid, "tier": "quick", "seed": 1, "caught": verdict.endswith("CAUGHT"), "signatures": sigs[:12]}
    json.dump(m, open(mp, "w"), indent=1)
    print(n, verdict.split("->")[-1].strip(), sigs[:3])
