#!/venv/bin/python
"""tools/sens.py <ID> <mutant.json|patch.diff> [--tier quick] — sensitivity harness.

Copies /repo to a scratch directory outside /repo and /verif, applies one mutant (a JSON list of
{"file","old","new"} textual edits, or a unified diff), runs the property's check against the copy through
VERIF_REPO, prints the summary and exits 0 iff the check reported a VIOLATION (exit status 1). The copy is removed."""
import json
import os
import shutil
import subprocess
import sys
import tempfile


def main():
    import argparse

    ap = argparse.ArgumentParser()
    ap.add_argument("id")
    ap.add_argument("mutant")
    ap.add_argument("--tier", default="quick")
    ap.add_argument("--lines", type=int, default=6)
    a = ap.parse_args()
    d = tempfile.mkdtemp(prefix="vsens-", dir="/tmp")
    try:
        subprocess.run(["rsync", "-a", "--exclude", ".git", "--exclude", "build", "/repo/", d + "/"], check=True)
        if a.mutant.endswith(".json"):
            m = json.load(open(a.mutant))
            for e in m["edits"]:
                p = os.path.join(d, e["file"])
                s = open(p).read()
                if s.count(e["old"]) != 1:
                    print(f"MUTANT-STALE {a.mutant}: 'old' occurs {s.count(e['old'])}x in {e['file']}")
                    return 3
                open(p, "w").write(s.replace(e["old"], e["new"]))
        else:
            r = subprocess.run(["patch", "-p1", "-s", "-i", os.path.abspath(a.mutant)], cwd=d)
            if r.returncode != 0:
                print(f"MUTANT-STALE {a.mutant}: patch does not apply")
                return 3
        env = dict(os.environ, VERIF_REPO=d)
        r = subprocess.run(["/verif/check", a.id, "--tier", a.tier], env=env, capture_output=True, text=True)
        keep = [l for l in r.stdout.splitlines() if l.startswith(("VIOLATION", "HARNESS", "  [", "KNOWN")) or l[:1] == "C"]
        for l in keep[: a.lines]:
            print("   " + l[:220])
        print(f"sens {a.id} {os.path.basename(a.mutant)} rc={r.returncode} -> {'CAUGHT' if r.returncode == 1 else 'MISSED'}")
        return 0 if r.returncode == 1 else 1
    finally:
        # drop the C++ build made from THIS copy's sources if they were mutated (other runs may be building theirs right now)
        def bdir(repo):
            r = subprocess.run(["/venv/bin/python", "-c", "from vlib import cppext; print(cppext.build_dir())"], cwd="/verif",
                               env=dict(os.environ, VERIF_REPO=repo), capture_output=True, text=True).stdout.strip().splitlines()[-1:]
            return r[0] if r else None

        mine, cur = bdir(d), bdir("/repo")
        shutil.rmtree(d, ignore_errors=True)
        if mine and mine != cur and os.path.basename(mine).startswith("cpp-"):
            shutil.rmtree(mine, ignore_errors=True)


if __name__ == "__main__":
    sys.exit(main())
