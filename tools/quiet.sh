#!/bin/sh
# tools/quiet.sh [seeds...] — run every quick check on the unchanged tree at several seeds, report any non-zero exit
cd /verif
for s in ${@:-1 2 3 4 5}; do
  for id in C01 C02 C03 C04 C05 C06 C07 C08 C09 C10 C11 C12 C13 C14 C15 C16; do
    t0=$(date +%s)
    VERIF_SEED=$s ./check $id --tier quick > /tmp/quiet-$id-$s.out 2>&1; rc=$?
    t1=$(date +%s)
    echo "seed=$s $id rc=$rc $((t1-t0))s $(grep -c VIOLATION /tmp/quiet-$id-$s.out) violations $(grep -c HARNESS /tmp/quiet-$id-$s.out) harness"
  done
done
