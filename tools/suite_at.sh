#!/bin/sh
# tools/suite_at.sh <commit>...  — run the repository's suite at each given commit in a scratch worktree and compare the set of failing
# test ids with the one of a scratch worktree of the reference commit (the sandbox makes 22 serialization tests fail in ANY worktree)
REF=/tmp/baseline-fails-89db7a9.txt
export OMP_NUM_THREADS=2
for c in "$@"; do
  WT=/tmp/sa-$c
  git -C /repo worktree add -q --detach "$WT" "$c" || exit 3
  (cd "$WT" && /venv/bin/python -m pytest -q -p no:cacheprovider -n 8 --timeout=900 test 2>&1 | grep -E "^(FAILED|ERROR)" | sed 's/ - .*//' | sort > /tmp/sa-$c.txt)
  if cmp -s "$REF" /tmp/sa-$c.txt; then echo "SUITE $c: failing set same as reference ($(wc -l < $REF))"; else echo "SUITE $c: DIFFERENT"; diff "$REF" /tmp/sa-$c.txt | head -5; fi
  git -C /repo worktree remove --force "$WT"
done
