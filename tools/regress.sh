#!/bin/sh
# tools/regress.sh [parallel] — every seeded change and every mutant against the quick tier of its check (scratch copies only; /repo untouched)
cd /verif
P=${1:-3}
{
  for d in seeded/*/; do n=$(basename $d); if grep -q '"obsolete"' $d/meta.json; then echo "seed $n: OBSOLETE (the library no longer lets this change break the property; see meta.json)" >&2; continue; fi; c=$(/venv/bin/python -c "import json,sys;print(json.load(open(sys.argv[1])).get('checked_with',sys.argv[2]))" $d/meta.json ${n%%-*}); echo "seed $n $c /verif/$d/patch.diff"; done
  for m in mutants/*/*.json; do echo "mutant $(basename $m .json) $(basename $(dirname $m)) /verif/$m"; done
} | xargs -P $P -L 1 sh -c 'r=$(tools/sens.py $2 $3 --lines 0 | tail -1); echo "$0 $1: $r"'
