#!/bin/sh
# tools/regress.sh — every seeded change and every mutant against the quick tier of its check (scratch copies only; /repo untouched)
cd /verif
for d in seeded/*/; do
  n=$(basename $d); id=${n%%-*}
  tools/sens.py $id /verif/$d/patch.diff --lines 0 | tail -1 | sed "s/^/seed $n: /"
done
for m in mutants/*/*.json; do
  id=$(basename $(dirname $m))
  tools/sens.py $id $m --lines 0 | tail -1
done
