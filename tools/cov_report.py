#!/venv/bin/python
"""tools/cov_report.py <covdir> [file-substring ...] — lines of optimum/quanto never executed by the shards that wrote <covdir>
(run checks with VERIF_COV=<covdir>). A diagnostic of generator completeness: an anchored line no check ever executes is a
region no property is being decided on."""
import glob, json, os, sys, collections

covdir = sys.argv[1]
filt = sys.argv[2:]
hit = collections.defaultdict(set)
by_check = collections.defaultdict(lambda: collections.defaultdict(set))
for f in glob.glob(os.path.join(covdir, "*.json")):
    chk = os.path.basename(f).split("-")[0]
    for fn, line in json.load(open(f)):
        hit[fn].add(line)
        by_check[fn][chk].add(line)
root = os.path.realpath(os.environ.get("VERIF_REPO", "/repo"))


def executable_lines(path):
    src = open(path).read()
    lines = set()
    todo = [compile(src, path, "exec")]
    while todo:
        co = todo.pop()
        for _, _, ln in co.co_lines():
            if ln:
                lines.add(ln)
        todo += [c for c in co.co_consts if hasattr(c, "co_lines")]
    return lines, src.splitlines()


tot_e = tot_h = 0
for dp, _, fns in sorted(os.walk(os.path.join(root, "optimum", "quanto"))):
    for fn in sorted(fns):
        if not fn.endswith(".py"):
            continue
        path = os.path.join(dp, fn)
        rel = os.path.relpath(path, root)
        if filt and not any(s in rel for s in filt):
            continue
        ex, src = executable_lines(path)
        h = hit.get(path, set())
        miss = sorted(l for l in ex - h if not src[l - 1].lstrip().startswith(("def ", "class ", "@", '"""', "import ", "from ")))
        tot_e += len(ex)
        tot_h += len(ex & h)
        if not h:
            print(f"-- {rel}: never imported/executed ({len(ex)} lines)")
            continue
        print(f"-- {rel}: {len(ex & h)}/{len(ex)} lines executed; not executed:")
        for l in miss:
            print(f"   {l:4d} {src[l - 1].rstrip()[:140]}")
print(f"TOTAL {tot_h}/{tot_e}")
