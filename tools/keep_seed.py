#!/venv/bin/python
"""tools/keep_seed.py <ID> <name> "<what it needs to manifest>"  — store a confirmed seeded change under seeded/<ID>/<name>/"""
import json, os, shutil, sys
pid, name, needs = sys.argv[1], sys.argv[2], sys.argv[3]
src = sys.argv[4] if len(sys.argv) > 4 else f"/tmp/seed-{pid}"
dst = f"/verif/seeded/{pid}-{name}" if name != "-" else f"/verif/seeded/{pid}"
os.makedirs(dst, exist_ok=True)
for f in ("patch.diff", "demo.py", "notes.md"):
    shutil.copy(os.path.join(src, f), os.path.join(dst, f))
confirm = open(os.path.join(src, "confirm.txt")).read().strip()
meta = {
    "property": pid,
    "origin": "independent sub-agent given only the property text and a scratch worktree of /repo",
    "needs_to_manifest": needs,
    "confirmed_by_me": confirm,
    "what_i_ran": "tools/confirm_seed.sh: fresh worktree of /repo HEAD; demo.py on HEAD (exit 0 expected), git apply patch.diff, demo.py again (non-zero expected), full pytest suite with the patch and comparison of the set of failing test ids with the unpatched run",
    "detected_by": None,
}
json.dump(meta, open(os.path.join(dst, "meta.json"), "w"), indent=1)
print("kept", dst)
