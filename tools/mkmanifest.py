#!/venv/bin/python
"""Regenerate MANIFEST.json from checks/plans.py (the registry is the single source of truth)."""
import json
import os
import sys

V = os.path.dirname(os.path.dirname(os.path.abspath(__file__)))
sys.path.insert(0, V)
from checks import plans  # noqa: E402

props = [json.loads(l) for l in open(os.path.join(V, "properties.jsonl"))]
BASE = "cd /repo && /venv/bin/python -m pytest -ra -q -p no:cacheprovider --timeout=900 --continue-on-collection-errors"
checks = []
na = []
for p in props:
    pid = p["id"]
    m = plans.CHECKS.get(pid)
    if m is None or getattr(m, "DISABLED", None):
        na.append({"property_id": pid, "reason": getattr(m, "DISABLED", None) or "check not built yet (work in progress, see DESIGN.md section 6)"})
        continue
    checks.append(
        {
            "property_id": pid,
            "quick_cmd": f"./check {pid} --tier quick",
            "thorough_cmd": f"./check {pid} --tier thorough",
            "evidence_file": f"/verif/evidence/{pid}.json",
            "replay_cmd_template": f"./check {pid} --replay {{path}}",
            "engine": "vlib",
            "level_claimed": {"category": m.LEVEL, "text": m.LEVEL_TEXT, "design_ref": f"DESIGN.md section 3, {pid}"},
            "level_note": m.LEVEL_NOTE,
            "technique": m.TECHNIQUE,
        }
    )
man = {
    "version": 1,
    "setup_cmd": "sh ./setup.sh",
    "hooks": {
        "guard": "none (no source hooks: /repo carries no instrumentation; QUANTO_VERIF is reserved and unused)",
        "enable": "checks import optimum.quanto from /repo's working tree (or $VERIF_REPO) as is; the C15 worker runs under python -O so that the CUDA-only asserts of the AWQ code do not stop the CPU run",
        "baseline_off_cmd": BASE,
        "source_commits": [],
        "add_only": True,
    },
    "engines": [
        {
            "name": "vlib",
            "path": "/verif/vlib",
            "serves_properties": [c["property_id"] for c in checks],
            "kind_free_text": "property-based testing: Hypothesis-generated cases / operation sequences / histories and complete enumeration of small finite sub-domains, explicit float64 / reference-model / round-trip / differential / metamorphic oracles, shrinking to JSON replay files; 16 crash-contained shard processes",
        }
    ],
    "checks": checks,
    "not_applicable": na,
    "notes": "Known findings: /verif/known_findings.json (read-only at run time). Regression corpus: /verif/corpus/<id>/. Sensitivity mutants: /verif/mutants, seeded changes from independent agents: /verif/seeded. See DESIGN.md.",
}
json.dump(man, open(os.path.join(V, "MANIFEST.json"), "w"), indent=1)
print("MANIFEST.json:", len(checks), "checks,", len(na), "not_applicable")
