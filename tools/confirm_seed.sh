#!/bin/sh
# tools/confirm_seed.sh <ID> [srcdir]  — independently confirm a seeded change: demo passes on HEAD, fails with the patch,
# and the repository's test-suite outcome (set of failing test ids) is unchanged. Uses a scratch worktree under /tmp, removed at the end.
ID=$1; SRC=${2:-/tmp/seed-$ID}; WT=/tmp/cs-$ID-$$
export OMP_NUM_THREADS=2
git -C /repo worktree add -q --detach "$WT" HEAD || exit 3
cd "$WT" || exit 3
suite() { /venv/bin/python -m pytest -q -p no:cacheprovider -n 8 --timeout=900 test 2>&1 | grep -E "^(FAILED|ERROR)" | sed 's/ - .*//' | sort; }
if [ ! -f /tmp/baseline-fails-$(git -C /repo rev-parse --short HEAD).txt ]; then suite > /tmp/baseline-fails-$(git -C /repo rev-parse --short HEAD).txt; fi
BASE=/tmp/baseline-fails-$(git -C /repo rev-parse --short HEAD).txt
QUANTO_ROOT=$WT /venv/bin/python "$SRC/demo.py" > "$SRC/confirm_demo_orig.log" 2>&1; d0=$?
git apply "$SRC/patch.diff" || { echo "CONFIRM $ID: patch does not apply"; cd /; git -C /repo worktree remove --force "$WT"; exit 3; }
QUANTO_ROOT=$WT /venv/bin/python "$SRC/demo.py" > "$SRC/confirm_demo_patched.log" 2>&1; d1=$?
suite > "$SRC/confirm_suite_patched.txt"
if cmp -s "$BASE" "$SRC/confirm_suite_patched.txt"; then s=same; else s=DIFFERENT; fi
echo "CONFIRM $ID: demo_on_original_exit=$d0 demo_on_patched_exit=$d1 suite_failing_set=$s ($(wc -l < "$BASE") baseline failures) head=$(git -C /repo rev-parse --short HEAD)" | tee "$SRC/confirm.txt"
cd /; git -C /repo worktree remove --force "$WT"
