"""C03 — scale selection is non-saturating, full-range and local to its axis/group."""
import torch
from hypothesis import strategies as st

from vlib import gen
from vlib import oracle as O
from vlib.core import Outcome, Raised, cut, drive

from checks import common_rows as R

from optimum.quanto import AbsmaxOptimizer, MaxOptimizer, absmax_scale, quantize_weight
from optimum.quanto.tensor.quantizers import AffineQuantizer, SymmetricQuantizer

ENTRIES8 = ["qw", "qw", "absmax_opt", "absmax_scale", "calibration"]
ENTRIESLOW = ["qw", "qw", "max_opt"]
PERTURB = ["replace", "scale", "permute", "one", "none"]


@st.composite
def cases(draw):
    qn = draw(st.sampled_from(sorted(O.QTALL)))
    low = O.QTALL[qn].bits < 8
    c = draw(R.row_tensor_cases(qtypes=(qn,), allow_groups=low, min_rank=1))
    entry = draw(st.sampled_from(ENTRIESLOW if low else ENTRIES8))
    shape, axis = c["shape"], c["axis"]
    if not low:
        # per-tensor (axis None) for the entry points that take it, and whenever per-axis is not admissible
        if len(shape) == 1 or shape[axis] == 1 or (entry != "qw" and draw(st.integers(0, 3)) == 0):
            if entry == "qw":
                if len(shape) == 1:
                    entry = "absmax_opt"
            if entry != "qw":
                c["axis"] = None
        if entry == "calibration":
            c["axis"] = None  # activations are per-tensor
    c["entry"] = entry
    c["target"] = draw(st.integers(0, 63))
    c["perturb"] = draw(st.sampled_from(PERTURB))
    c["k"] = draw(st.integers(0, 7))
    c["seed2"] = draw(st.integers(0, 2**20))
    return c


def quantize_via(entry, x, qtype, axis, gs):
    """-> (scale, zeropoint|None, quantized tensor) through one of the public entry points"""
    if entry == "qw":
        q = quantize_weight(x, qtype, axis, gs)
        return q._scale, getattr(q, "_zeropoint", None), q
    if entry == "absmax_opt":
        s = AbsmaxOptimizer()(x, qtype.bits, axis)
        return s, None, SymmetricQuantizer.apply(x, qtype, axis, s)
    if entry == "absmax_scale":
        s = absmax_scale(x, qtype, axis)
        return s, None, SymmetricQuantizer.apply(x, qtype, axis, s)
    if entry == "max_opt":
        s, z = MaxOptimizer()(x, qtype.bits, axis, gs)
        return s, z, AffineQuantizer.apply(x, qtype, axis, gs, s, z)
    if entry == "calibration":
        # the scale a module with quantized activations gets for this batch from a real Calibration context (first batch)
        import torch.nn as nn

        from optimum.quanto import Calibration
        from optimum.quanto.nn import QLinear

        feats = x.shape[-1] if x.ndim >= 2 else x.numel()
        batch = (x if x.ndim >= 2 else x.reshape(1, -1)).detach()
        m = QLinear.from_module(nn.Linear(feats, 2, bias=False).to(x.dtype), weights=O.QTALL["qint8"], activations=qtype)
        if x.numel() % 3 == 0:
            # a static input buffer refilled in place (the very same tensor object served an earlier batch of another range, to
            # another module): the scale is that of its CURRENT contents
            buf = torch.empty_like(batch)
            buf.copy_(batch * 0.02 if float(batch.abs().max()) > 0 else batch + 1)
            other = QLinear.from_module(nn.Linear(feats, 1, bias=False).to(x.dtype), weights=O.QTALL["qint8"], activations=O.QT8[["qint8", "qfloat8_e4m3fn"][x.numel() % 2]])
            with torch.no_grad(), Calibration(streamline=False):
                other(buf)
            buf.copy_(batch)
            batch = buf
        with torch.no_grad(), Calibration(streamline=False):
            m(batch)
            if x.numel() % 2:
                m(batch)  # a second batch: the moving average of equal values (dtype and value must survive the update)
        s = m.input_scale.detach().clone().reshape(())
        return s, None, SymmetricQuantizer.apply(x, qtype, None, s)
    raise ValueError(entry)


def expected_form(shape, axis, gs, ng, low):
    if axis is None:
        return ()
    if len(shape) == 1:
        return (1,) if gs is None else ((ng, 1) if axis == 0 else (1, ng))
    if gs is not None:
        return (ng, 1) if axis == 0 else (1, ng)
    f = [1] * len(shape)
    f[axis] = shape[axis]
    return tuple(f)


def group_stats(x64, gid, ng):
    flat, g = x64.reshape(-1), gid.reshape(-1)
    z = torch.zeros(ng, dtype=torch.float64)
    amax = z.clone().scatter_reduce(0, g, flat.abs(), "amax", include_self=True)
    lo = z.clone().scatter_reduce(0, g, flat, "amin", include_self=True)
    hi = z.clone().scatter_reduce(0, g, flat, "amax", include_self=True)
    return amax, lo, hi


def eff_axis(case, x):
    """axis quanto ends up using: quantize_weight degrades an 8-bit per-axis request on a size-1 axis to per-tensor"""
    axis = case["axis"]
    if case["entry"] == "qw" and O.QTALL[case["qtype"]].bits == 8 and axis is not None and x.shape[axis] == 1:
        return None
    return axis


def analyse(case, x, tag, out):
    """run the entry point, check form / non-saturation / full range; return per-group views for the locality relation"""
    dtype = x.dtype
    qtype = O.QTALL[case["qtype"]]
    low = qtype.bits < 8
    gs = case["group_size"]
    axis = eff_axis(case, x)
    r = cut(quantize_via, case["entry"], x, qtype, case["axis"], gs)
    if isinstance(r, Raised):
        out.fail(f"{tag}/raises:{r.type}", r.text)
        return None
    scale, zp, q = r
    if axis is None:
        gid, ng = torch.zeros(x.shape, dtype=torch.int64), 1
    else:
        gid, ng = R.groups_of(list(x.shape), axis, gs)
    u, eta = gen.U[dtype], gen.ETA[dtype]
    # (1) form
    want = expected_form(list(x.shape), axis, gs, ng, low)
    if scale.dtype != dtype or tuple(scale.shape) != want:
        out.fail(f"{tag}/form", f"scale dtype {scale.dtype} shape {tuple(scale.shape)}; expected {dtype} {want} for source {tuple(x.shape)} axis {axis} group {gs}")
        return None
    if low and (zp is None or zp.dtype != torch.int8 or tuple(zp.shape) != want):
        out.fail(f"{tag}/form", f"zero-point {None if zp is None else (zp.dtype, tuple(zp.shape))}; expected int8 {want}")
        return None
    x64 = x.to(torch.float64)
    amax, lo, hi = group_stats(x64, gid, ng)
    s_g = scale.to(torch.float64).reshape(-1)
    nz = amax > 0  # all-zero groups: any scale represents them, both clauses are vacuous there
    if not bool(torch.isfinite(s_g[nz]).all()) or bool((s_g[nz] < 0).any()):
        # non-finite scales are C16's subject (known finding: ranges at the dtype's maximum); C03 cannot say more
        ov = ((hi - lo) if low else amax) * (1 + 4 * u) > gen.FMAX[dtype] / (1 if low else 1)
        if bool(((~torch.isfinite(s_g) | (s_g < 0)) & nz & ~ov).any()):
            out.fail(f"{tag}/scale-not-finite-positive", f"scale {s_g[nz][:4].tolist()}")
        return None
    if low:
        n = 2**qtype.bits - 1
        z_g = zp.to(torch.float64).reshape(-1)
        # (3) full range
        limit = (hi - lo) / n * (1 + 4 * u) + eta
        # an ideal scale that rounds to zero in the dtype (below its subnormal quantum) cannot be represented at all (quanto
        # then falls back to a unit scale): such groups stay subject to the non-saturation clause only. Subnormal but
        # representable scales are covered by the absolute term eta of the limit.
        bad = nz & (s_g > limit) & ((hi - lo) / n >= eta)
        if bool(bad.any()):
            i = int(torch.nonzero(bad)[0])
            out.fail(f"{tag}/scale-too-large", f"group {i}: scale {s_g[i].item():.6g} > (hi-lo)/{n} = {((hi - lo) / n)[i].item():.6g} for range [{lo[i].item():.6g},{hi[i].item():.6g}]")
        # (2) non saturating: the unclamped code of every element lies in [0, n] up to rounding
        lo_rep = s_g * (0 - z_g) - s_g / 2
        hi_rep = s_g * (n - z_g) + s_g / 2
        slack = 4 * u * torch.maximum(lo.abs(), hi.abs()) + 4 * u * s_g * (n + 1) + (n + 3) * eta
        bad = nz & ((lo < lo_rep - slack) | (hi > hi_rep + slack))
        if bool(bad.any()):
            i = int(torch.nonzero(bad)[0])
            out.fail(f"{tag}/saturates", f"group {i}: range [{lo[i].item():.6g},{hi[i].item():.6g}] but codes 0..{n} with scale {s_g[i].item():.6g} zero-point {z_g[i].item()} only reach [{lo_rep[i].item():.6g},{hi_rep[i].item():.6g}]")
        codes, _, _ = O.unpacked_codes(q)
    else:
        G = O.grid(qtype)
        gmax = float(G[-1])
        qmax = float(torch.finfo(qtype.dtype).max if qtype.is_floating_point else 127) if case["entry"] in ("absmax_scale", "calibration") else 127.0
        # (the calibration entry may average two equal batches: momentum * s + (1 - momentum) * s costs three roundings, each up
        # to eta / 2 in the subnormal range)
        keta = 3 if case["entry"] == "calibration" else 1
        limit = amax / qmax * (1 + (2 if keta == 1 else 5) * u) + keta * eta
        bad = nz & (s_g > limit) & (amax / qmax >= eta)
        if bool(bad.any()):
            i = int(torch.nonzero(bad)[0])
            out.fail(f"{tag}/scale-too-large", f"group {i}: scale {s_g[i].item():.6g} > absmax/qmax = {(amax / qmax)[i].item():.6g}")
        bad = nz & (amax > s_g * gmax * (1 + (4 if keta == 1 else 7) * u) + gmax * keta * eta)
        if bool(bad.any()):
            i = int(torch.nonzero(bad)[0])
            out.fail(f"{tag}/saturates", f"group {i}: absmax {amax[i].item():.6g} > scale*{gmax} = {(s_g[i] * gmax).item():.6g}")
        codes = O.codes64(q)
    return {"gid": gid, "ng": ng, "scale": scale.reshape(-1), "zp": None if zp is None else zp.reshape(-1), "codes": codes, "amax": amax}


def perturb(case, x, gid, ng, r):
    """x' equal to x on group r; returns (x', new group id of r)"""
    kind = case["perturb"]
    others = gid != r
    dtype = x.dtype
    # every third case perturbs the SAME tensor object in place (an optimizer step): nothing may be remembered from the first call
    x2 = x if (case["k"] % 3 == 0 and kind != "permute") else x.clone()
    axis = case["axis"]
    if kind == "replace":
        c2 = dict(case, seed=case["seed2"], classes=[(c + 1 + case["k"]) % R.NCLS for c in case["classes"]], mags=[((m + 6 + case["k"]) % 11) - 6 for m in case["mags"]])
        y, _, _, _ = R.build(c2)
        x2[others] = y[others]
    elif kind == "scale":
        f = 10.0 ** [-3, -1, 1, 3, 2, -2, 4, -4][case["k"] % 8]
        x2[others] = gen.clamp_finite(x.to(torch.float64)[others] * f, dtype)
    elif kind == "one":
        idx = torch.nonzero(others.reshape(-1)).reshape(-1)
        if len(idx):
            j = int(idx[case["seed2"] % len(idx)])
            v = x.to(torch.float64).abs().max().item() * 2 + 1
            x2.reshape(-1)[j] = gen.clamp_finite(torch.tensor(v if case["k"] % 2 else -v, dtype=torch.float64), dtype)
    elif kind == "permute":
        n_ax = x.shape[axis]
        shift = 1 + case["k"] % max(1, n_ax - 1) if n_ax > 1 else 0
        x2 = torch.roll(x, shifts=shift, dims=axis if axis == 0 else x.ndim - 1)
        per_index = ng // n_ax
        idx, chunk = divmod(r, per_index)
        return x2.contiguous(), ((idx + shift) % n_ax) * per_index + chunk
    return x2, r


def exec_case(case):
    out = Outcome()
    x, _, _, names = R.build(case)
    tag = f"opt/{case['entry']}"
    a = analyse(case, x, tag, out)
    qn = case["qtype"]
    out.klass = [f"entry-{case['entry']}", qn, f"axis-{case['axis']}", f"perturb-{case['perturb']}", "grouped" if case["group_size"] else "ungrouped"]
    out.fingerprint = [case["dtype"], qn, case["entry"], case["axis"], case["shape"], case["group_size"], case["perturb"], names[:6]]
    if a is None or a["ng"] < 2 or case["perturb"] == "none" or eff_axis(case, x) is None:
        out.nontrivial = False
        return out
    gid, ng = a["gid"], a["ng"]
    r = case["target"] % ng
    x_orig = x.clone()  # (the perturbation may be applied to x itself, in place)
    x2, r2 = perturb(case, x, gid, ng, r)
    x = x_orig
    out2 = Outcome()
    b = analyse(case, x2, tag, out2)
    # failures of the perturbed tensor are genuine failures of another input: report them too
    out.failures += out2.failures
    if b is None:
        return out
    ltag = f"local/{case['entry']}/{case['perturb']}"
    m1, m2 = gid == r, b["gid"] == r2
    if not torch.equal(x[m1], x2[m2]):
        out.fail("local/harness", "perturbation touched the target group (harness bug)")
        return out
    if gen.to_bits(a["scale"][r : r + 1]) != gen.to_bits(b["scale"][r2 : r2 + 1]):
        out.fail(f"{ltag}/scale", f"scale of untouched group {r} changed {a['scale'][r].item()!r} -> {b['scale'][r2].item()!r} when other rows/groups were modified")
    elif a["zp"] is not None and int(a["zp"][r]) != int(b["zp"][r2]):
        out.fail(f"{ltag}/zeropoint", f"zero-point of untouched group {r} changed {int(a['zp'][r])} -> {int(b['zp'][r2])}")
    elif not torch.equal(a["codes"][m1].nan_to_num(), b["codes"][m2].nan_to_num()):
        out.fail(f"{ltag}/codes", f"codes of untouched group {r} changed when other rows/groups were modified")
    am = a["amax"]
    other_changed = not torch.equal(x, x2)
    out.nontrivial = bool(other_changed and am.max() > 2 * am[am > 0].min() if bool((am > 0).any()) else False)
    return out


def run(ctx):
    drive(ctx, cases(), exec_case, max(1, int(ctx.params["n"] * ctx.params.get("scale", 1))))


def _order():
    from checks import prelude

    return prelude.make_order(cases(), exec_case, lambda c: [c["dtype"], c["qtype"], c["entry"], c["axis"], c["perturb"]])


def run_order(ctx):
    strategy, execute = _order()
    drive(ctx, strategy, execute, max(1, int(ctx.params["n"] * ctx.params.get("scale", 1))))


def exec_order(case):
    return _order()[1](case)


SUBCHECKS = {"scales": {"run": run, "execute": exec_case}, "order": {"run": run_order, "execute": exec_order}}
