"""Program machine shared by C05 (per-step differential vs the float op, frame condition) and C06 (metadata invariant
after every step).

A program is a list of step dicts made only of small integers; the interpreter resolves them against the current pool
of values (operand selectors are taken modulo the number of admissible pool entries, dims modulo the rank, ...), so
every drawn program is executable, replayable from JSON and shrinks well.  A float *twin* of every pool entry is
maintained by running the same ops on plain tensors: it carries the aliasing structure a user expects (views share
storage) and is used only for the frame condition.
"""
import itertools
import math

import torch
import torch.nn.functional as F
from hypothesis import strategies as st

from vlib import gen
from vlib import oracle as O
from vlib.core import Outcome, Raised, cut

from optimum.quanto import QBitsTensor, QBytesTensor, QTensor, absmax_scale, quantize_activation, quantize_weight
from optimum.quanto.tensor.quantizers import SymmetricQuantizer

DTYPES = [torch.float32, torch.float16, torch.bfloat16]
Q8 = [O.QT8["qint8"], O.QT8["qfloat8_e4m3fn"], O.QT8["qfloat8_e5m2"]]
QLOW = [O.QTALL["qint4"], O.QTALL["qint2"]]
SCALARS = [2.0, 0.5, -1.0, 3.25, 1e-3, 1e3, -0.125, 7.0, 1.0, -3.0, 0.0]


def isq(v):
    return isinstance(v, QTensor)


def deq(v):
    if isinstance(v, QTensor):
        return v.dequantize()
    if isinstance(v, (list, tuple)):
        return type(v)(deq(x) for x in v)
    return v


def is_ft(v):  # float tensor-like (quantized or plain float)
    return isinstance(v, torch.Tensor) and (isq(v) or v.dtype.is_floating_point)


class Pool:
    def __init__(self):
        self.vals = []  # values as quanto produced them
        self.twins = []  # float twins (aliasing model)
        self.origin = []  # producing op name
        self.qdep = []  # True if the value derives from a quantized tensor (result of a previous step on one)

    def add(self, v, twin, origin, derived=False):
        self.vals.append(v)
        self.twins.append(twin)
        self.origin.append(origin)
        self.qdep.append(derived)
        return len(self.vals) - 1

    def pick(self, sel, pred):
        idx = [i for i, v in enumerate(self.vals) if pred(v)]
        if not idx:
            return None
        if sel >= 100:  # chain: the most recent admissible entries (results of the previous steps)
            return idx[-1 - (sel - 100) % min(2, len(idx))]
        return idx[sel % len(idx)]


# ----------------------------------------------------------------------------- sources

def _values(shape, dtype, seed, spread):
    g = torch.Generator().manual_seed(seed)
    v = torch.randn(shape, generator=g, dtype=torch.float64) * spread
    return gen.clamp_finite(v, dtype)


def make_source(kind, step):
    """-> quantized / plain value built from the step's integers (deterministic)"""
    a, b, c = step["a"], step["b"], step["c"]
    dtype = DTYPES[a % 3]
    shape = step.get("shape") or [2, 3]
    seed = step.get("seed", 0)
    spread = [1.0, 1.0, 0.01, 30.0][c % 4]
    x = _values(shape, dtype, seed, spread)
    if kind == "src_plain":
        return x
    if kind == "src_mask":
        return x > 0
    if kind == "src_qa":
        qt = Q8[b % 3]
        sk = (b // 3) % 4
        s = absmax_scale(x, qt)
        if sk == 1:  # saturating scale
            s = s * 0.3
        elif sk == 2:  # coarse
            s = s * 7.0
        elif sk == 3:  # arbitrary positive value of the dtype
            s = torch.tensor([0.037, 1.0, 2.0**-6, 11.0][(b // 12) % 4], dtype=dtype)
        s = torch.where(s > 0, s, torch.ones_like(s))
        return quantize_activation(x, qt, s)
    if kind == "src_qw":
        if len(shape) < 2:
            shape = [2] + list(shape)
            x = _values(shape, dtype, seed, spread)
        qt = Q8[b % 3]
        axis = 0 if (b // 3) % 2 == 0 else -1
        # rows of visibly different ranges
        g = torch.Generator().manual_seed(seed + 1)
        n = x.shape[axis]
        f = 10.0 ** (torch.rand(n, generator=g) * 3 - 1.5)
        fs = [1] * x.ndim
        fs[axis] = n
        x = gen.clamp_finite(x.to(torch.float64) * f.reshape(fs).to(torch.float64), dtype)
        return quantize_weight(x, qt, axis)
    if kind == "src_qbits":
        if len(shape) < 2:
            shape = [2] + list(shape)
            x = _values(shape, dtype, seed, spread)
        qt = QLOW[b % 2]
        axis = 0 if (b // 2) % 2 == 0 else -1
        per = x.numel() // x.shape[axis]
        divs = [None] + gen.divisors(per)
        gs = divs[(b // 4) % len(divs)]
        return quantize_weight(x, qt, axis, gs)
    raise ValueError(kind)


def fresh_partner(shape, dtype, a, seed):
    """operand created on demand for contractions / binary ops: plain, per-tensor q, per-axis q, low-bit"""
    kind = ["plain", "qa", "qa", "qw", "qbits", "qa"][a % 6]
    step = {"a": DTYPES.index(dtype) if dtype in DTYPES else 0, "b": a // 6, "c": 0, "shape": list(shape), "seed": seed}
    if kind == "plain":
        return make_source("src_plain", step)
    if kind == "qw" and len(shape) >= 2 and shape[0] > 1:
        step["b"] = (a // 6) % 6  # every 8-bit qtype, quantized along the first (b < 3) or the LAST axis (b >= 3)
        return make_source("src_qw", step)
    if kind == "qbits" and len(shape) >= 2:
        step["b"] = (a // 6) % 2
        return make_source("src_qbits", step)
    return make_source("src_qa", step)


# ----------------------------------------------------------------------------- op builders
# each builder returns None (inapplicable) or dict(f=callable(*operands), ops=[pool indices], klass=..., extra=[fresh operands])

def _factorizations(n, k):
    outs = [[n], [1, n], [n, 1]]
    for d in gen.divisors(n):
        outs.append([d, n // d])
        for e in gen.divisors(n // d):
            outs.append([d, e, n // d // e])
    return outs[k % len(outs)]


def b_view(P, s, a, b, c, name):
    i = P.pick(s[0], is_ft)
    if i is None:
        return None
    t = P.vals[i]
    shape = _factorizations(t.numel(), a) if t.numel() else list(t.shape)
    if name == "view":
        return dict(f=lambda t: t.view(shape), ops=[i], klass="move", stride_sensitive=True)
    if name == "reshape":
        return dict(f=lambda t: t.reshape(shape), ops=[i], klass="move")
    if name == "flatten":
        if t.ndim == 0:
            return None
        d0 = a % t.ndim
        d1 = d0 + b % (t.ndim - d0)
        return dict(f=lambda t: t.flatten(d0, d1), ops=[i], klass="move")
    if name == "unflatten":
        if t.ndim == 0:
            return None
        d = a % t.ndim
        sizes = _factorizations(t.shape[d], b) if t.shape[d] else [0]
        return dict(f=lambda t: t.unflatten(d, sizes), ops=[i], klass="move")


def b_perm(P, s, a, b, c, name):
    pred = (lambda v: is_ft(v) and 1 <= v.ndim <= 2) if name == "t" else (lambda v: is_ft(v) and v.ndim >= 1)
    i = P.pick(s[0], pred)
    if i is None:
        return None
    t = P.vals[i]
    if name == "t":
        return dict(f=lambda t: t.t(), ops=[i], klass="move")
    if name == "transpose":
        d0, d1 = a % t.ndim, b % t.ndim
        return dict(f=lambda t: t.transpose(d0, d1), ops=[i], klass="move")
    if name == "permute":
        perms = list(itertools.permutations(range(t.ndim)))
        p = perms[a % len(perms)]
        return dict(f=lambda t: t.permute(p), ops=[i], klass="move")
    if name == "mT":
        if t.ndim < 2:
            return None
        return dict(f=lambda t: t.mT, ops=[i], klass="move")


def b_index(P, s, a, b, c, name):
    i = P.pick(s[0], lambda v: is_ft(v) and v.ndim >= 1 and v.numel() > 0)
    if i is None:
        return None
    t = P.vals[i]
    d = a % t.ndim
    n = t.shape[d]
    if name == "slice":
        start = b % n
        stop = start + 1 + c % (n - start)
        step = 1 + (c // 7) % 2
        idx = [slice(None)] * t.ndim
        idx[d] = slice(start, stop, step)
        idx = tuple(idx)
        return dict(f=lambda t: t[idx], ops=[i], klass="move")
    if name == "select":
        k = b % n
        return dict(f=lambda t: t.select(d, k), ops=[i], klass="move")
    if name == "getitem0":
        k = b % t.shape[0]
        return dict(f=lambda t: t[k], ops=[i], klass="move")
    if name == "narrow":
        start = b % n
        ln = 1 + c % (n - start)
        return dict(f=lambda t: t.narrow(d, start, ln), ops=[i], klass="move")
    if name == "unsqueeze":
        dd = a % (t.ndim + 1)
        return dict(f=lambda t: t.unsqueeze(dd), ops=[i], klass="move")
    if name == "squeeze":
        if b % 2:
            return dict(f=lambda t: t.squeeze(), ops=[i], klass="move")
        return dict(f=lambda t: t.squeeze(d), ops=[i], klass="move")
    if name == "expand":
        k = 1 + b % 3
        return dict(f=lambda t: t.unsqueeze(0).expand(k, *t.shape), ops=[i], klass="move")
    if name == "expand_as1":
        ones = [j for j, z in enumerate(t.shape) if z == 1]
        if not ones:
            return None
        shape = list(t.shape)
        shape[ones[b % len(ones)]] = 2 + c % 2
        return dict(f=lambda t: t.expand(shape), ops=[i], klass="move")
    if name == "index_select":
        g = torch.Generator().manual_seed(b)
        ix = torch.randint(0, n, (1 + c % 3,), generator=g)
        return dict(f=lambda t: t.index_select(d, ix), ops=[i], klass="pass")
    if name == "flip":
        return dict(f=lambda t: t.flip(d), ops=[i], klass="pass")


def _same_shape_partners(P, i, s, count, a):
    """indices of `count` extra operands with the shape (and dtype) of entry i; created on demand"""
    t = P.vals[i]
    extra = []
    ops = []
    for k in range(count):
        mode = (a // (6**k)) % 6
        j = None
        if mode == 5 and isinstance(t, QBytesTensor) and t.axis is None and t.dtype in DTYPES:
            # companion with a scale of EQUAL VALUE but ANOTHER float dtype (torch.equal does not compare dtypes)
            odt = DTYPES[(DTYPES.index(t.dtype) + 1 + s[1 + k] % 2) % 3]
            sc = t._scale.to(odt)
            if float(sc.to(torch.float64)) == float(t._scale.to(torch.float64)) and float(sc) > 0:
                x = gen.clamp_finite(_values(list(t.shape), odt, 1900 + s[1 + k], 1.0).to(torch.float64) * float(sc.to(torch.float64)) * 40, odt)
                extra.append(("like-other-dtype", quantize_activation(x, t.qtype, sc)))
                ops.append(("x", len(extra) - 1))
                continue
            mode = 0
        if mode == 4 and isinstance(t, QBytesTensor) and t.axis is None:
            # companion whose scale differs from t's by ONE unit in the last place (almost, but not, equal)
            sc = torch.nextafter(t._scale, torch.full_like(t._scale, float("inf")))
            x = gen.clamp_finite(_values(list(t.shape), t.dtype, 1700 + s[1 + k], 1.0).to(torch.float64) * float(t._scale.abs().to(torch.float64)) * 40, t.dtype)
            extra.append(("like-near-equal-scale", quantize_activation(x, t.qtype, sc)))
            ops.append(("x", len(extra) - 1))
            continue
        if mode == 3 and isinstance(t, QBytesTensor) and t.axis is None:
            # companion with an EQUAL scale but ANOTHER 8-bit qtype
            oq = Q8[(Q8.index(t.qtype) + 1 + s[1 + k] % 2) % 3] if t.qtype in Q8 else Q8[0]
            x = _values(list(t.shape), t.dtype, 1500 + s[1 + k], 1.0) * float(t._scale.abs().to(torch.float64)) * 40
            extra.append(("like-other-qtype", quantize_activation(x.to(t.dtype), oq, t._scale)))
            ops.append(("x", len(extra) - 1))
            continue
        if mode == 0:  # an existing entry with the same shape & dtype
            j = P.pick(s[1 + k], lambda v: is_ft(v) and v.shape == t.shape and v.dtype == t.dtype)
        if j is None and mode == 1 and isinstance(t, QBytesTensor):
            # companion with EQUAL scale (reaches the quantized cat/stack/lt branches), per-tensor or per-axis
            sc64 = t._scale.abs().to(torch.float64)
            x = gen.clamp_finite(_values(list(t.shape), t.dtype, 1000 + s[1 + k], 1.0).to(torch.float64) * sc64 * 40, t.dtype)
            if t.axis is None:
                extra.append(("like", quantize_activation(x, t.qtype, t._scale)))
            else:
                extra.append(("like", SymmetricQuantizer.apply(x, t.qtype, t.axis, t._scale)))
            ops.append(("x", len(extra) - 1))
            continue
        if j is None and mode == 0 and s[1 + k] % 3 == 0:
            ops.append(("p", i))  # the operand itself, twice
            continue
        if j is None:
            extra.append(("fresh", fresh_partner(list(t.shape), t.dtype, s[1 + k] + a, 2000 + s[1 + k])))
            ops.append(("x", len(extra) - 1))
            continue
        ops.append(("p", j))
    return ops, extra


def b_join(P, s, a, b, c, name):
    i = P.pick(s[0], lambda v: is_ft(v) and v.ndim >= 1)
    if i is None:
        return None
    t = P.vals[i]
    count = b % 3  # 1..3 operands in total
    ops, extra = _same_shape_partners(P, i, s, count, a)
    d = c % (t.ndim + (1 if name == "stack" else 0))
    fn = torch.cat if name == "cat" else torch.stack
    return dict(f=lambda *ts: fn(list(ts), dim=d), ops=[("p", i)] + ops, extra=extra, klass="move")


def b_split(P, s, a, b, c, name):
    i = P.pick(s[0], lambda v: is_ft(v) and v.ndim >= 1 and v.numel() > 0)
    if i is None:
        return None
    t = P.vals[i]
    d = a % t.ndim
    n = t.shape[d]
    if name == "split":
        k = 1 + b % n
        return dict(f=lambda t: t.split(k, dim=d), ops=[i], klass="move")
    if name == "split_sizes":
        k = 1 + b % n
        sizes = [k, n - k] if n - k > 0 else [n]
        return dict(f=lambda t: t.split(sizes, dim=d), ops=[i], klass="move")
    if name == "chunk":
        k = 1 + b % 3
        return dict(f=lambda t: t.chunk(k, dim=d), ops=[i], klass="move")
    if name == "unbind":
        return dict(f=lambda t: t.unbind(d), ops=[i], klass="move")


def _to_form(dt, b, c):
    """Tensor.to in one of its call forms (dtype alone, device and dtype, another tensor, keywords), in the ambient mode or
    inside torch.inference_mode() -- where Tensor.to is not decomposed and reaches the tensor as aten.to with its positional
    arguments (the result is cloned on the way out: inference tensors cannot take part in the rest of the program)"""
    form, infer = c % 4, b % 3 == 0

    def go(t):
        if form == 0:
            return t.to(dt)
        if form == 1:
            return t.to("cpu", dt)
        if form == 2:
            return t.to(torch.empty(0, dtype=dt))
        return t.to(device="cpu", dtype=dt)

    def f(t):
        if not infer:
            return go(t)
        with torch.inference_mode():
            r = go(t)
        return r.clone()

    return f


def b_copy(P, s, a, b, c, name):
    i = P.pick(s[0], is_ft)
    if i is None:
        return None
    t0 = P.vals[i]
    if t0.ndim == 4 and c % 3 == 0 and name in ("clone", "contiguous", "to_copy", "to_dtype"):
        # a rank-4 tensor asked in another memory format (x.contiguous(memory_format=torch.channels_last) in a conv net)
        mf = torch.channels_last
        if name == "to_dtype":
            dt = [torch.float32, torch.float16, torch.bfloat16][a % 3]
            return dict(f=lambda t: t.to(dt, memory_format=mf), ops=[i], klass="rescale", copyop=True, dtype_move=dt)
        f = {"clone": lambda t: t.clone(memory_format=mf), "contiguous": lambda t: t.contiguous(memory_format=mf), "to_copy": lambda t: t.to(memory_format=mf)}[name]
        return dict(f=f, ops=[i], klass="move", copyop=True)
    if name == "clone":
        return dict(f=lambda t: t.clone(), ops=[i], klass="move", copyop=True)
    if name == "detach":
        return dict(f=lambda t: t.detach(), ops=[i], klass="move", copyop=True)
    if name == "contiguous":
        return dict(f=lambda t: t.contiguous(), ops=[i], klass="move", copyop=True)
    if name == "to_copy":
        return dict(f=lambda t: t.to("cpu", copy=True), ops=[i], klass="move", copyop=True)
    if name == "to_dtype":
        dt = [torch.float32, torch.float16, torch.bfloat16, torch.float64, torch.int32, torch.int64, torch.float8_e4m3fn, torch.float8_e5m2][a % 8]
        if dt.is_floating_point and dt.itemsize == 1:
            # an 8-bit float dtype is a dtype like another for the float program (its values are compared in float32)
            return dict(f=lambda t: t.to(dt).to(torch.float32), ops=[i], klass="pass", dtype_move=dt)
        if not dt.is_floating_point:
            # a float tensor can be cast to an integer dtype (truncation): so can a quantized one, through its values
            return dict(f=_to_form(dt, b, c), ops=[i], klass="pass", dtype_move=dt)
        return dict(f=_to_form(dt, b, c), ops=[i], klass="rescale", copyop=True, dtype_move=dt)
    if name == "to_meta":
        return dict(f=lambda t: t.to("meta"), ops=[i], klass="meta")
    if name == "deepcopy":
        import copy

        return dict(f=lambda t: copy.deepcopy(t), ops=[i], klass="move", copyop=True)


def b_copy_(P, s, a, b, c, name):
    """dest.copy_(src): q <- q of the same qtype, or plain <- q"""
    if a % 3 == 0:
        i = P.pick(s[0], lambda v: isinstance(v, torch.Tensor) and not isq(v) and v.dtype.is_floating_point and v.ndim >= 1)
        if i is None:
            return None
        d = P.vals[i]
        j = P.pick(s[1], lambda v: isq(v) and v.shape == d.shape)
        extra = []
        if j is None:
            extra = [("fresh", fresh_partner(list(d.shape), d.dtype if d.dtype in DTYPES else torch.float32, 1 + 6 * b, 3000 + b))]
            srcop = ("x", 0)
        else:
            srcop = ("p", j)
    else:
        if a % 3 == 2 and c % 4 == 1:
            # a packed low-bit destination: the values of a plain / quantized source of the same shape are quantized into it
            i = P.pick(s[0], lambda v: isinstance(v, QBitsTensor) and v.numel() > 0)
            if i is not None:
                d = P.vals[i]
                x = gen.clamp_finite(_values(list(d.shape), d.dtype, 4800 + b, 1.0).to(torch.float64) * float(deq(d).abs().max().to(torch.float64) + 1e-3), d.dtype)
                src_ = x if b % 2 == 0 else quantize_weight(x, d.qtype, d.axis, d._group_size)
                if b % 4 == 3 and d.ndim == 2 and d._group_size is None and min(d.shape) > 1:
                    # a low-bit source quantized along the OTHER axis (same payload shape, another layout of the scales)
                    src_ = quantize_weight(x, d.qtype, -1 if d.axis == 0 else 0, None)
                    return dict(f=lambda d, s_: d.copy_(s_), ops=[("p", i), ("x", 0)], extra=[("fresh", src_)], klass="requant", inplace=0)
                if a % 12 == 5 and d.ndim == 2 and d.shape[0] > 1:
                    # a ONE-ROW low-bit source quantized the same way, broadcast along the rows of the destination
                    one = cut(quantize_weight, x[:1].contiguous(), d.qtype, d.axis, d._group_size)
                    if not isinstance(one, Raised):  # (a single row cannot always be grouped like the destination: then the ordinary source is used)
                        return dict(f=lambda d, s_: d.copy_(s_), ops=[("p", i), ("x", 0)], extra=[("fresh", one)], klass="requant", inplace=0)
                # (a source quantized the same way is COPIED: codes, scales and zero-points arrive unaltered)
                return dict(f=lambda d, s_: d.copy_(s_), ops=[("p", i), ("x", 0)], extra=[("fresh" if isq(src_) else "plain", src_)], klass="move" if isq(src_) else "requant", inplace=0)
        i = P.pick(s[0], lambda v: isinstance(v, QBytesTensor) and v.ndim >= 1)
        if i is None:
            return None
        d = P.vals[i]
        j = P.pick(s[1], lambda v: isinstance(v, QBytesTensor) and v.qtype == d.qtype and v.shape == d.shape and v is not d and (v.axis == d.axis or v.axis is None))
        extra = []
        if j is None or b % 3 != 0:
            # fresh source: same layout, or (b % 3 == 1) a per-tensor source of ANOTHER float dtype
            sdt = d.dtype if b % 3 != 1 else DTYPES[(DTYPES.index(d.dtype) + 1 + b % 2) % 3] if d.dtype in DTYPES else torch.float32
            x = _values(list(d.shape), sdt, 4000 + b, 1.0)
            if d.axis is None or b % 3 == 1:
                sc = absmax_scale(x, d.qtype)
                sc = torch.where(sc > 0, sc, torch.ones_like(sc))
                extra = [("fresh", quantize_activation(x, d.qtype, sc))]
            else:
                extra = [("fresh", SymmetricQuantizer.apply(x, d.qtype, d.axis, d._scale * 0.5))]
            srcop = ("x", 0)
        else:
            srcop = ("p", j)
    if isinstance(d, QBytesTensor) and d.axis is None and c % 7 in (5, 6) and d.dtype in DTYPES:
        # a quantized source of ANOTHER 8-bit qtype, or quantized per-axis: its values (inside the destination's range) are copied
        x = gen.clamp_finite(_values(list(d.shape), d.dtype, 4700 + b, 1.0).to(torch.float64) * float(d._scale.abs().max().to(torch.float64)) * 40, d.dtype)
        if c % 7 == 5 or d.ndim < 2 or d.shape[0] < 2:
            oq = [q_ for q_ in Q8 if q_ != d.qtype][b % 2]
            sc = absmax_scale(x, oq)
            src_ = quantize_activation(x, oq, torch.where(sc > 0, sc, torch.ones_like(sc)))
        else:
            src_ = quantize_weight(x, d.qtype, [0, -1][b % 2])
        return dict(f=lambda d, s_: d.copy_(s_), ops=[("p", i), ("x", 0)], extra=[("fresh", src_)], klass="requant", inplace=0)
    if isinstance(d, QBytesTensor) and d.axis is not None and d.ndim == 3 and d.shape[1] > 1 and c % 7 == 4 and d.dtype in DTYPES:
        # a per-axis source of LOWER rank, broadcast along the leading dimension of a per-axis destination
        x = gen.clamp_finite(_values(list(d.shape[1:]), d.dtype, 4900 + b, 1.0).to(torch.float64) * float(d._scale.abs().min().to(torch.float64)) * 40, d.dtype)
        src_ = quantize_weight(x, d.qtype, 0)
        return dict(f=lambda d, s_: d.copy_(s_), ops=[("p", i), ("x", 0)], extra=[("fresh", src_)], klass="requant", inplace=0)
    srcv = extra[0][1] if srcop[0] == "x" else P.vals[srcop[1]]
    nb = c % 3 == 0  # copy_(src, non_blocking=True) is the same copy
    if isinstance(d, QBytesTensor) and c % 5 == 4:
        # a PLAIN float source into a quantized destination: its values are projected on the destination's grid
        plain = gen.clamp_finite(_values(list(d.shape), d.dtype, 4500 + b, 1.0).to(torch.float64) * float(d._scale.abs().max().to(torch.float64)) * 60, d.dtype)
        return dict(f=lambda d, s_: d.copy_(s_, non_blocking=nb), ops=[("p", i), ("x", 0)], extra=[("plain", plain)], klass="requant", inplace=0)
    # a copy between float dtypes is a dtype move: the float program rounds the source values to the source dtype first
    klass = "move" if getattr(srcv, "dtype", None) == d.dtype else "rescale"
    return dict(f=lambda d, s_: d.copy_(s_, non_blocking=nb), ops=[("p", i), srcop], extra=extra, klass=klass, inplace=0)


class _InplaceReLU:
    mod = torch.nn.ReLU(inplace=True)


def b_inplace(P, s, a, b, c, name):
    """in-place operations on a quantized tensor (x *= k, x += r, ReLU(inplace=True), masked_fill_ ...): afterwards the SAME object
    holds the result of the float program, re-quantized where it cannot be represented exactly"""
    i = P.pick(s[0], lambda v: isq(v) and v.ndim >= 1 and v.numel() > 0)
    if i is None:
        return None
    t = P.vals[i]
    k = [0.5, 2.0, -1.5, 0.25, 3.0][a % 5]
    dt = t.dtype if t.dtype in DTYPES else torch.float32
    exact = isinstance(t, QBytesTensor) and not t.qtype.is_floating_point
    resc = "rescale" if isinstance(t, QBytesTensor) and k > 0 else "requant"  # (a negative factor is not folded into the scale)
    if name == "relu_":
        f = [lambda t: t.relu_(), lambda t: torch.relu_(t), lambda t: F.relu(t, inplace=True), lambda t: _InplaceReLU.mod(t)][c % 4]
        # codes of an integer grid are moved; anything else is re-quantized
        return dict(f=f, ops=[i], klass="move" if exact else "requant", inplace=0)
    if name == "neg_":
        return dict(f=lambda t: t.neg_(), ops=[i], klass="neg" if exact else "requant", inplace=0)
    if name == "zero_":
        return dict(f=lambda t: t.zero_(), ops=[i], klass="move", inplace=0)
    if name == "imul_scalar":
        def f(t):
            t *= k
            return t
        return dict(f=f if c % 2 else (lambda t: t.mul_(k)), ops=[i], klass=resc, factor=abs(k), inplace=0)
    if name == "idiv_scalar":
        def f(t):
            t /= k
            return t
        return dict(f=f if c % 2 else (lambda t: t.div_(k)), ops=[i], klass=resc, factor=1.0 / abs(k), inplace=0)
    if name == "iadd_scalar":
        kk = k * 0.3 * float(deq(t).abs().max())
        def f(t):
            t += kk
            return t
        return dict(f=f if c % 2 else (lambda t: t.add_(kk)), ops=[i], klass="requant", inplace=0)
    if name in ("iadd_tensor", "isub_tensor", "imul_tensor"):
        # a residual / mask of the same shape, or broadcast along the leading dims
        shape = list(t.shape) if c % 3 else list(t.shape[-1:])
        other = gen.clamp_finite(_values(shape, dt, 7000 + b, 1.0).to(torch.float64) * 0.3 * float(deq(t).abs().max().to(torch.float64)), dt)
        if name == "imul_tensor":
            other = (_values(shape, dt, 7000 + b, 1.0) > 0).to(dt)  # a pruning mask
        fn = {"iadd_tensor": lambda t, o: t.add_(o), "isub_tensor": lambda t, o: t.sub_(o), "imul_tensor": lambda t, o: t.mul_(o)}[name]
        return dict(f=fn, ops=[("p", i), ("x", 0)], extra=[("plain", other)], klass="requant", inplace=0)
    if name == "ikw":
        # in-place operations carrying KEYWORD-ONLY arguments of the aten schema (alpha, value, rounding_mode)
        shape = list(t.shape)
        mag = float(deq(t).abs().max().to(torch.float64)) + 1e-3
        y = gen.clamp_finite(_values(shape, dt, 7200 + b, 1.0).to(torch.float64) * 0.3 * mag, dt)
        z = gen.clamp_finite(_values(shape, dt, 7300 + b, 1.0).to(torch.float64).abs() + 0.5, dt)
        form = c % 6
        if form == 0:
            return dict(f=lambda t, o: t.add_(o, alpha=3), ops=[("p", i), ("x", 0)], extra=[("plain", y)], klass="requant", inplace=0)
        if form == 1:
            return dict(f=lambda t, o: t.sub_(o, alpha=0.25), ops=[("p", i), ("x", 0)], extra=[("plain", y)], klass="requant", inplace=0)
        if form == 2:
            return dict(f=lambda t, o: t.addcmul_(o, z, value=0.5), ops=[("p", i), ("x", 0)], extra=[("plain", y)], klass="requant", inplace=0)
        if form == 3:
            return dict(f=lambda t, o: t.addcdiv_(o, z, value=2.0), ops=[("p", i), ("x", 0)], extra=[("plain", y)], klass="requant", inplace=0)
        if form == 4:
            kq = 0.3 * mag
            return dict(f=lambda t: t.div_(kq, rounding_mode="floor"), ops=[i], klass="requant", inplace=0)
        return dict(f=lambda t: t.add_(1.0, alpha=0.5 * mag), ops=[i], klass="requant", inplace=0)
    if name == "clamp_":
        lim = 0.4 * float(deq(t).abs().max())
        f = [lambda t: t.clamp_(min=0), lambda t: t.clamp_(-lim, lim), lambda t: t.clamp_(max=lim)][c % 3]
        return dict(f=f, ops=[i], klass="requant", inplace=0)
    if name == "masked_fill_":
        mask = _values(list(t.shape), torch.float32, 7100 + b, 1.0) > 0
        val = [0.0, 0.0, 0.25 * float(deq(t).abs().max()), float("-inf")][c % 4]
        if val == float("-inf"):
            val = -0.5 * float(deq(t).abs().max())
        return dict(f=lambda t: t.masked_fill_(mask, val), ops=[i], klass="requant", inplace=0)
    if name == "fill_":
        val = [0.0, 0.3, -0.6][c % 3] * float(deq(t).abs().max())
        return dict(f=lambda t: t.fill_(val), ops=[i], klass="requant", inplace=0)
    if name == "iadd_empty":
        # a quantized tensor without elements (an empty slice) is still a tensor: updating it in place is a no-op, not an error
        return dict(f=lambda t: t[0:0].add_(1.0), ops=[i], klass="move")
    if name in ("t_", "transpose_", "unsqueeze_", "squeeze_"):
        # in-place shape operations, on a private copy (the pool keeps the original): a transposition that keeps the shape (square
        # last dims) must work; the others cannot be expressed by a wrapper whose size is fixed (recorded finding)
        if name == "t_":
            if t.ndim > 2:
                return None
            # (.contiguous(): a wrapper cannot change its strides either; the value is what is compared, in a canonical layout)
            f = lambda t: t.clone().t_().contiguous()  # noqa: E731
        elif name == "transpose_":
            if t.ndim < 2:
                return None
            d0, d1 = [(0, 1), (-1, -2), (0, -1)][c % 3]
            f = lambda t: (t.clone().transpose_(d0, d1) if c % 2 else t.clone().swapaxes_(d0, d1)).contiguous()  # noqa: E731
        elif name == "unsqueeze_":
            f = lambda t: t.clone().unsqueeze_(a % (t.ndim + 1))  # noqa: E731
        else:
            f = lambda t: t.clone().squeeze_()  # noqa: E731
        return dict(f=f, ops=[i], klass="requant", shape_change=True)
    if name == "sigmoid_":
        return dict(f=[lambda t: t.sigmoid_(), lambda t: t.tanh_(), lambda t: F.hardtanh(t, inplace=True)][c % 3], ops=[i], klass="requant", inplace=0)
    return None


INPLACE = ["ikw", "ikw", "iadd_empty", "t_", "transpose_", "unsqueeze_", "squeeze_", "relu_", "relu_", "neg_", "zero_", "imul_scalar", "idiv_scalar", "iadd_scalar", "iadd_tensor", "isub_tensor", "imul_tensor", "clamp_", "masked_fill_", "fill_", "sigmoid_"]


def b_scalar(P, s, a, b, c, name):
    i = P.pick(s[0], is_ft)
    if i is None:
        return None
    t = P.vals[i]
    k = SCALARS[a % len(SCALARS)]
    if name in ("div_scalar", "rdiv_scalar") and k == 0.0:
        k = 4.0
    if c % 11 == 10 and name in ("mul_scalar", "rmul_scalar", "div_scalar"):
        # a complex factor: the float program returns a complex tensor
        kc = [1j, 2 + 0j, -0.5j][a % 3]
        return dict(f={"mul_scalar": lambda t: t * kc, "rmul_scalar": lambda t: kc * t, "div_scalar": lambda t: t / kc}[name], ops=[i], klass="pass")
    form = b % 6
    if form == 1:
        kk = torch.tensor(k, dtype=t.dtype)
    elif form == 2:
        kk = torch.tensor(k)
    elif form in (3, 4, 5):
        # a one-element tensor WITH dimensions (a temperature kept as (1,) or (1, 1)): broadcasting semantics, not a scalar
        nd = [1, max(1, t.ndim), t.ndim + 1][form - 3]
        kk = torch.full((1,) * nd, k, dtype=t.dtype if c % 2 == 0 else torch.float32)
    else:
        kk = k
    # `factor`: the dequantized operand carries an absolute error of eta/2 when it is subnormal, which the float op amplifies
    if name == "mul_scalar":
        return dict(f=lambda t: t * kk, ops=[i], klass="rescale", factor=abs(k))
    if name == "rmul_scalar":
        return dict(f=lambda t: kk * t, ops=[i], klass="rescale", factor=abs(k))
    if name == "div_scalar":
        return dict(f=lambda t: t / kk, ops=[i], klass="rescale", factor=1.0 / abs(k))
    if name == "rdiv_scalar":
        return dict(f=lambda t: kk / t, ops=[i], klass="pass")
    if name == "div_floor":
        mode = ["floor", "trunc"][c % 2]
        kd = kk if (isinstance(kk, float) and kk != 0) or isinstance(kk, torch.Tensor) else 4.0
        return dict(f=lambda t: torch.div(t, kd, rounding_mode=mode), ops=[i], klass="pass")


def b_unary(P, s, a, b, c, name):
    i = P.pick(s[0], is_ft)
    if i is None:
        return None
    t = P.vals[i]
    if name == "out_arg":
        # an explicit output tensor (torch.mul(q, k, out=o)): it receives what the float program computes
        if t.ndim == 0 or t.dtype not in DTYPES:
            return None
        form = c % 5
        k = SCALARS[a % 8] or 2.0
        if form == 0:
            return dict(f=lambda t: torch.mul(t, k, out=torch.empty(t.shape, dtype=t.dtype)), ops=[i], klass="rescale", factor=abs(k))
        if form == 1:
            return dict(f=lambda t: torch.neg(t, out=torch.empty(t.shape, dtype=t.dtype)), ops=[i], klass="neg")
        if form == 2:
            return dict(f=lambda t: torch.cat([t, t], out=torch.empty((2 * t.shape[0],) + tuple(t.shape[1:]), dtype=t.dtype)), ops=[i], klass="move")
        if form == 3:
            return dict(f=lambda t: torch.div(t, abs(k), out=torch.empty(t.shape, dtype=t.dtype)), ops=[i], klass="rescale", factor=1.0 / abs(k))
        return dict(f=lambda t: torch.relu(t).clone() if False else torch.clamp(t, min=0, out=torch.empty(t.shape, dtype=t.dtype)), ops=[i], klass="move")
    if name == "view_dtype":
        if t.ndim == 0 or not t.is_contiguous() or t.dtype not in DTYPES:
            return None
        vd = {4: [torch.int32, torch.uint8, torch.int16], 2: [torch.int16, torch.uint8, torch.float16 if t.dtype == torch.bfloat16 else torch.bfloat16]}[t.dtype.itemsize][a % 3]
        if vd.is_floating_point:
            return dict(f=lambda t: t.view(vd).view(torch.int16), ops=[i], klass="pass")
        return dict(f=lambda t: t.view(vd), ops=[i], klass="pass")
    if name == "neg":
        return dict(f=lambda t: -t, ops=[i], klass="neg")
    if name == "relu":
        return dict(f=lambda t: torch.relu(t), ops=[i], klass="move")
    if name == "frelu":
        return dict(f=lambda t: F.relu(t), ops=[i], klass="move")
    if name == "softmax":
        if t.ndim == 0:
            return None
        d = a % t.ndim
        return dict(f=lambda t: torch.softmax(t, dim=d), ops=[i], klass="requant")
    if name == "fsoftmax":
        if t.ndim == 0:
            return None
        d = a % t.ndim
        return dict(f=lambda t: F.softmax(t, dim=d), ops=[i], klass="requant")
    PASS = {
        "abs": torch.abs,
        "exp": lambda t: torch.exp(t.clamp(max=8)) if not isq(t) else torch.exp(t),
        "tanh": torch.tanh,
        "gelu": F.gelu,
        "silu": F.silu,
        "sum": torch.sum,
        "mean": torch.mean,
        "amax": lambda t: t.amax(a % t.ndim) if t.ndim else t.amax(),
        "argmax": torch.argmax,
        "sort": lambda t: torch.sort(t, dim=a % t.ndim).values if t.ndim else t,
        "cumsum": lambda t: torch.cumsum(t, dim=a % t.ndim) if t.ndim else t,
        "log_softmax": lambda t: F.log_softmax(t, dim=a % t.ndim) if t.ndim else t,
        "layer_norm": lambda t: F.layer_norm(t, t.shape[-1:]) if t.ndim else t,
        "topk": lambda t: torch.topk(t, 1 + b % t.shape[-1]).values if t.ndim and t.shape[-1] else t,
        "zeros_like": torch.zeros_like,
        "ones_like": torch.ones_like,
        "sign": torch.sign,
        "square": torch.square,
        "isfinite": torch.isfinite,
        "std": lambda t: t.to(torch.float32).std() if False else torch.std(t) if t.numel() > 1 else torch.sum(t),
        "masked_fill": lambda t: t.masked_fill(deq(t) > 0, 1.5),
        "tolist_sum": lambda t: t.sum().item(),
        "numel": lambda t: t.numel(),
        "size": lambda t: tuple(t.size()),
        "dim": lambda t: t.dim(),
        "numpy_sum": lambda t: float(t.numpy().astype("float64").sum()),
        "repr": lambda t: isinstance(repr(t), str) and isinstance(str(t), str),
        "is_contiguous": None,
    }
    fn = PASS.get(name)
    if fn is None:
        return None
    if name == "exp":
        fn = torch.exp
    return dict(f=lambda t: fn(t), ops=[i], klass="pass")


def b_binary(P, s, a, b, c, name):
    i = P.pick(s[0], is_ft)
    if i is None:
        return None
    t = P.vals[i]
    ops, extra = _same_shape_partners(P, i, s, 1, a) if t.ndim >= 1 else ([("p", i)], [])
    qfirst = (b % 2 == 0)
    FN = {
        "add": torch.add,
        "sub": torch.sub,
        "mul_tensor": torch.mul,
        "div_tensor": lambda x, y: torch.div(x, y),
        "maximum": torch.maximum,
        "equal": torch.equal,
        "cosine_similarity": lambda x, y: F.cosine_similarity(x.reshape(1, -1), y.reshape(1, -1)),
        "lt": torch.lt,
        "lt_m": lambda x, y: x < y,
        "gt": torch.gt,
        "eq": torch.eq,
        "is_same_size": lambda x, y: bool(torch.ops.aten.is_same_size(x, y)),
    }
    fn = FN[name]
    order = [("p", i)] + ops
    if not qfirst:
        order.reverse()
    klass = "pass"
    return dict(f=lambda x, y: fn(x, y), ops=order, extra=extra, klass=klass)


def b_lt_scalar(P, s, a, b, c, name):
    i = P.pick(s[0], is_ft)
    if i is None:
        return None
    k = SCALARS[a % len(SCALARS)]
    t0 = P.vals[i]
    if c % 3 and isinstance(t0, torch.Tensor) and t0.numel() > 0 and t0.dtype.is_floating_point and t0.device.type != "meta":
        # a threshold that IS one of the tensor's own values (q < q.max(), a percentile taken from the data): ties are decided
        # exactly as on the dequantized values; as a Python number or as a 0-dim tensor
        d0 = cut(lambda: deq(t0).reshape(-1)[b % t0.numel()])
        if not isinstance(d0, Raised) and bool(torch.isfinite(d0)):
            k = float(d0) if c % 3 == 1 else d0.detach().clone()
    cmpop = [lambda t: t < k, lambda t: t <= k, lambda t: t > k, lambda t: t >= k, lambda t: k > t, lambda t: torch.lt(t, k)][(a // len(SCALARS)) % 6 if c % 3 else 0]
    return dict(f=cmpop, ops=[i], klass="pass")


def b_where(P, s, a, b, c, name):
    i = P.pick(s[0], lambda v: is_ft(v) and v.ndim >= 1)
    if i is None:
        return None
    t = P.vals[i]
    g = torch.Generator().manual_seed(a)
    mask = torch.rand(t.shape, generator=g) > 0.5
    form = b % 5
    if form == 0:
        k = [0.0, -1.0, float("-inf"), 3.0, 1000.0 * (1.0 + float(deq(t).abs().max())), float(torch.finfo(t.dtype if t.dtype.is_floating_point else torch.float32).min)][c % 6]
        return dict(f=lambda t: torch.where(mask, t, k), ops=[i], klass="requant")
    if form == 1:
        # (every other time: an alternative of ANOTHER float dtype, which promotes the result like any binary float op)
        odt = t.dtype if c % 2 == 0 or t.dtype not in DTYPES else DTYPES[(DTYPES.index(t.dtype) + 1 + c // 2 % 2) % 3]
        other = _values(list(t.shape), odt, 5000 + c, 1.0)
        return dict(f=lambda t: torch.where(mask, t, other), ops=[i], klass="requant")
    if form == 2:
        other = _values(list(t.shape), t.dtype, 5000 + c, 1.0)
        return dict(f=lambda t: torch.where(mask, other, t), ops=[i], klass="requant")
    if form == 3:
        ops, extra = _same_shape_partners(P, i, s, 1, 1 + 3 * c)
        return dict(f=lambda t, o: torch.where(mask, t, o), ops=[("p", i)] + ops, extra=extra, klass="requant")
    k = torch.tensor([0.0, -2.0, 1.0][c % 3], dtype=t.dtype)
    return dict(f=lambda t: torch.where(mask, t, k), ops=[i], klass="requant")


def b_contract(P, s, a, b, c, name):
    if name in ("mm", "linear", "linear_nobias", "matmul2"):
        pred = lambda v: is_ft(v) and v.ndim == 2 and v.numel() > 0  # noqa: E731
    elif name == "bmm":
        pred = lambda v: is_ft(v) and v.ndim == 3 and v.numel() > 0  # noqa: E731
    else:
        pred = lambda v: is_ft(v) and v.ndim >= 1 and v.numel() > 0  # noqa: E731  (a single vector is a legal operand of linear / matmul)
    i = P.pick(s[0], pred)
    if i is None:
        return None
    t = P.vals[i]
    k = t.shape[-1]
    p = 1 + b % 5
    dtype = t.dtype
    if name == "linear_nobias" and c % 7 == 6:
        # a single vector of weights (shape (in_features)): one scalar per input vector
        xw = _values([k], dtype, 6050 + c, 1.0)
        qt_ = Q8[a % 3]
        sw = absmax_scale(xw, qt_)
        w = quantize_activation(xw, qt_, torch.where(sw > 0, sw, torch.ones_like(sw)))
        return dict(f=lambda x, w_: F.linear(x, w_), ops=[("p", i), ("x", 0)], extra=[("fresh", w)], klass="contract", contract="mm")
    if name in ("linear", "linear_nobias", "linear_nd"):
        w = fresh_partner([p, k], dtype, a, 6000 + c)
        bias = None
        if name != "linear_nobias":
            bias = _values([p], dtype, 6100 + c, 1.0)
        if c % 4 == 3 and not isq(t):
            pass
        if c % 4 == 1:
            return dict(f=lambda x, w_: F.linear(x, weight=w_, bias=bias), ops=[("p", i), ("x", 0)], extra=[("fresh", w)], klass="contract", contract="linear", bias=bias)
        return dict(f=lambda x, w_: F.linear(x, w_, bias), ops=[("p", i), ("x", 0)], extra=[("fresh", w)], klass="contract", contract="linear", bias=bias)
    if name == "mm" or name == "matmul2":
        w = fresh_partner([k, p], dtype, a, 6200 + c)
        fn = torch.mm if name == "mm" else torch.matmul
        order = [("p", i), ("x", 0)]
        if c % 3 == 2:  # fresh @ t
            w = fresh_partner([p, t.shape[0]], dtype, a, 6300 + c)
            order = [("x", 0), ("p", i)]
        return dict(f=lambda x, y: fn(x, y), ops=order, extra=[("fresh", w)], klass="contract", contract="mm")
    if name == "bmm":
        if isinstance(t, QBytesTensor) and t.qtype.name == "qint8" and c % 2 == 0:
            # the integer bmm path needs two qint8 operands: give a qint8 first operand (per-tensor or per-axis) a per-tensor
            # qint8 partner, square in its last two dims every other time (a misplaced scale then broadcasts silently)
            pp = k if c % 4 == 0 else p
            xw = _values([t.shape[0], k, pp], dtype, 6450 + c, 1.0)
            sw = absmax_scale(xw, t.qtype)
            w = quantize_activation(xw, t.qtype, torch.where(sw > 0, sw, torch.ones_like(sw)))
            return dict(f=lambda x, y: torch.bmm(x, y), ops=[("p", i), ("x", 0)], extra=[("fresh", w)], klass="contract", contract="mm")
        w = fresh_partner([t.shape[0], k, p], dtype, a, 6400 + c)
        return dict(f=lambda x, y: torch.bmm(x, y), ops=[("p", i), ("x", 0)], extra=[("fresh", w)], klass="contract", contract="mm")
    if name == "matmul":
        w = fresh_partner([k, p], dtype, a, 6500 + c)
        return dict(f=lambda x, y: torch.matmul(x, y), ops=[("p", i), ("x", 0)], extra=[("fresh", w)], klass="contract", contract="mm")


def b_pad(P, s, a, b, c, name):
    i = P.pick(s[0], lambda v: is_ft(v) and v.ndim in (3, 4) and v.numel() > 0)
    if i is None:
        return None
    t = P.vals[i]
    mode = ["constant", "constant", "reflect", "replicate", "circular"][a % 5]
    pl, pr = b % 2, c % 2
    if mode in ("reflect", "circular", "replicate") and t.shape[-1] < 2:
        mode = "constant"
    pads = (pl, pr) if t.ndim == 3 else (pl, pr, c % 2, b % 2)
    if mode != "constant" and t.ndim == 4 and t.shape[-2] < 2:
        pads = (pl, pr)
    if mode == "constant":
        fill = [0.0, 0.0, 1.0, -0.5, 3.0, 1e-3][(a // 5 + b + c) % 6]  # the fill value is a VALUE, not a code
        return dict(f=lambda t: F.pad(t, pads, mode=mode, value=fill), ops=[i], klass="move")
    return dict(f=lambda t: F.pad(t, pads, mode=mode), ops=[i], klass="move")


BUILDERS = {}
for _n in ("view", "reshape", "flatten", "unflatten"):
    BUILDERS[_n] = b_view
for _n in ("t", "transpose", "permute", "mT"):
    BUILDERS[_n] = b_perm
for _n in ("slice", "select", "getitem0", "narrow", "unsqueeze", "squeeze", "expand", "expand_as1", "index_select", "flip"):
    BUILDERS[_n] = b_index
for _n in ("cat", "stack"):
    BUILDERS[_n] = b_join
for _n in ("split", "split_sizes", "chunk", "unbind"):
    BUILDERS[_n] = b_split
for _n in ("clone", "detach", "contiguous", "to_copy", "to_dtype", "to_meta", "deepcopy"):
    BUILDERS[_n] = b_copy
BUILDERS["copy_"] = b_copy_
for _n in ("mul_scalar", "rmul_scalar", "div_scalar", "rdiv_scalar", "div_floor"):
    BUILDERS[_n] = b_scalar
for _n in ("neg", "relu", "frelu", "softmax", "fsoftmax", "abs", "exp", "tanh", "gelu", "silu", "sum", "mean", "amax", "argmax", "sort", "cumsum",
           "log_softmax", "layer_norm", "topk", "zeros_like", "ones_like", "sign", "square", "isfinite", "std", "masked_fill", "tolist_sum", "numel", "size", "dim", "numpy_sum", "repr", "view_dtype", "out_arg"):
    BUILDERS[_n] = b_unary
for _n in ("add", "sub", "mul_tensor", "div_tensor", "maximum", "equal", "cosine_similarity", "lt", "lt_m", "gt", "eq", "is_same_size"):
    BUILDERS[_n] = b_binary
BUILDERS["lt_scalar"] = b_lt_scalar
BUILDERS["where"] = b_where
for _n in ("mm", "matmul2", "bmm", "matmul", "linear", "linear_nobias", "linear_nd"):
    BUILDERS[_n] = b_contract
BUILDERS["pad"] = b_pad
for _n in set(INPLACE):
    BUILDERS[_n] = b_inplace

# operations whose quantized result is known to keep a reference to its input's scale and/or payload (finding D26/D33)
SHARING_OPS = {"view", "reshape", "flatten", "unflatten", "t", "transpose", "permute", "mT", "slice", "select", "getitem0", "narrow", "unsqueeze", "squeeze",
               "expand", "expand_as1", "split", "split_sizes", "chunk", "unbind", "neg", "relu", "frelu", "cat", "stack", "where", "mul_scalar", "rmul_scalar",
               "div_scalar", "detach", "partner-like", "partner-like-other-qtype", "partner-fresh", "src_qa", "src_qw", "copy_", "to_copy", "contiguous", "to_dtype"}
SOURCES = ["src_qa", "src_qa", "src_qw", "src_qbits", "src_plain"]
INTERCEPTED = ["view", "reshape", "flatten", "unflatten", "t", "transpose", "permute", "mT", "slice", "select", "getitem0", "narrow", "unsqueeze",
               "squeeze", "expand", "expand_as1", "cat", "stack", "split", "split_sizes", "chunk", "unbind", "clone", "detach", "contiguous", "to_copy",
               "to_dtype", "to_meta", "deepcopy", "copy_", "mul_scalar", "rmul_scalar", "div_scalar", "rdiv_scalar", "div_floor", "neg", "relu", "frelu", "softmax",
               "fsoftmax", "where", "lt", "lt_m", "lt_scalar", "mm", "matmul2", "bmm", "matmul", "linear", "linear_nobias", "linear_nd", "pad"]
PASSTHROUGH = ["abs", "exp", "tanh", "gelu", "silu", "sum", "mean", "amax", "argmax", "sort", "cumsum", "log_softmax", "layer_norm", "topk", "zeros_like",
               "ones_like", "sign", "square", "isfinite", "std", "masked_fill", "tolist_sum", "numel", "size", "dim", "add", "sub", "mul_tensor",
               "div_tensor", "maximum", "equal", "cosine_similarity", "gt", "eq", "index_select", "flip", "numpy_sum", "repr", "is_same_size", "view_dtype", "out_arg"]
SEMANTIC = ["clone", "detach", "neg", "relu", "frelu", "mul_scalar", "rmul_scalar", "div_scalar", "where", "lt", "lt_m", "lt_scalar", "softmax", "copy_", "cat", "stack", "split", "t", "transpose"]
ALLOPS = INTERCEPTED + INTERCEPTED + SEMANTIC + SEMANTIC + PASSTHROUGH + INPLACE  # intercepted ops (and those acting on codes) more likely


PAIR_OPS = ["cat", "stack", "lt", "lt_m", "lt_scalar", "gt", "eq", "where", "add", "sub", "mul_tensor", "div_tensor", "maximum", "equal", "copy_", "cosine_similarity", "is_same_size"]


def pair_cases():
    """complete list of the 2-step programs  source -> operation with a companion operand  over 12 quantized source kinds x the
    binary operations x every companion mode (existing entry, equal scale, other qtype, near-equal scale, other dtype, fresh) x
    argument variants: the combinations a random program reaches only now and then"""
    cases = []
    sources = []
    for q in range(3):
        sources.append({"op": "src_qa", "a": q, "b": q, "c": 0, "shape": [3, 4], "seed": 21 + q})
        sources.append({"op": "src_qw", "a": (q + 1) % 3, "b": q, "c": 0, "shape": [3, 4], "seed": 24 + q})       # first axis
        sources.append({"op": "src_qw", "a": (q + 2) % 3, "b": q + 3, "c": 0, "shape": [4, 3], "seed": 27 + q})   # last axis
    sources.append({"op": "src_qa", "a": 0, "b": 0, "c": 0, "shape": [2, 3, 2], "seed": 31})
    sources.append({"op": "src_qw", "a": 0, "b": 0, "c": 0, "shape": [2, 3, 2], "seed": 32})
    sources.append({"op": "src_qbits", "a": 0, "b": 0, "c": 0, "shape": [4, 8], "seed": 33})
    for src in sources:
        for opname in PAIR_OPS:
            for a in range(36):
                for b in range(4):
                    for c in range(2):
                        cases.append({"steps": [src, {"op": opname, "s": [0, 1, 2], "a": a, "b": b, "c": c}]})
    return cases


@st.composite
def programs(draw, max_steps=8):
    nsrc = draw(st.integers(1, 3))
    steps = []
    for _ in range(nsrc):
        steps.append({
            "op": draw(st.sampled_from(SOURCES)),
            "a": draw(st.integers(0, 2)),
            "b": draw(st.integers(0, 47)),
            "c": draw(st.integers(0, 3)),
            "shape": draw(gen.shapes(1, 4, 1, 5)),
            "seed": draw(st.integers(0, 999)),
        })
    nops = draw(st.integers(1, max_steps))
    for _ in range(nops):
        steps.append({
            "op": draw(st.sampled_from(ALLOPS)),
            "s": [draw(st.sampled_from([0, 1, 2, 3, 4, 5, 100, 100, 100, 101])), draw(st.integers(0, 7)), draw(st.integers(0, 7))],
            "a": draw(st.integers(0, 40)),
            "b": draw(st.integers(0, 40)),
            "c": draw(st.integers(0, 40)),
        })
    return {"steps": steps}


# ----------------------------------------------------------------------------- comparison

def _teq(x, y):
    if x.dtype != y.dtype or x.shape != y.shape:
        return False
    if x.is_meta or y.is_meta:
        return True
    if x.dtype.is_floating_point:
        return bool(((x == y) | (torch.isnan(x) & torch.isnan(y))).all())
    if x.dtype.is_complex:
        return _teq(torch.view_as_real(x.to(torch.complex128)), torch.view_as_real(y.to(torch.complex128)))
    return torch.equal(x, y)


def describe(v):
    if isinstance(v, QBytesTensor):
        return f"QBytes[{v.qtype.name},{'per-tensor' if v.axis is None else 'axis%s' % v.axis},{gen.DTN.get(v.dtype, v.dtype)}]"
    if isinstance(v, QBitsTensor):
        return f"QBits[{v.qtype.name},axis{v.axis},g{v._group_size}]"
    if isinstance(v, torch.Tensor):
        return f"plain[{str(v.dtype).replace('torch.', '')}]"
    return type(v).__name__


def kind_key(v):
    if isinstance(v, QBytesTensor):
        return ("q8f" if v.qtype.is_floating_point else "q8i") + ("" if v.axis is None else "-axis")
    if isinstance(v, QBitsTensor):
        return "qbits"
    if isinstance(v, torch.Tensor):
        return "plain"
    return "scalar"


def compare_tensor(out, tag, klass, res, ref, info):
    """res: what quanto returned (maybe quantized); ref: float op on the dequantized operands"""
    d = cut(deq, res)
    if isinstance(d, Raised):
        out.fail(f"{tag}/result-dequantize-raises:{d.type}", d.text)
        return
    if not isinstance(d, torch.Tensor):
        out.fail(f"{tag}/structure", f"float op returns a tensor, quantized op returns {type(res).__name__}")
        return
    if tuple(d.shape) != tuple(ref.shape) or (isq(res) and tuple(res.shape) != tuple(ref.shape)):
        out.fail(f"{tag}/shape", f"float result {tuple(ref.shape)}, quantized result reports {tuple(res.shape)} and dequantizes to {tuple(d.shape)}")
        return
    if d.dtype != ref.dtype:
        out.fail(f"{tag}/dtype", f"float result {ref.dtype}, quantized result {d.dtype} ({describe(res)})")
        return
    if ref.is_meta or d.is_meta:
        if ref.is_meta != d.is_meta:
            out.fail(f"{tag}/device", "meta mismatch")
        return
    if not ref.dtype.is_floating_point or klass in ("move", "pass"):
        if not _teq(d, ref):
            bad = ~((d == ref) | (torch.isnan(d) & torch.isnan(ref))) if ref.dtype.is_floating_point else d != ref
            i = int(torch.nonzero(bad.reshape(-1))[0]) if bad.numel() else 0
            out.fail(f"{tag}/value", f"{int(bad.sum())}/{bad.numel()} elements differ, e.g. quantized path {d.reshape(-1)[i].item()!r} vs float op {ref.reshape(-1)[i].item()!r} ({describe(res)})")
        return
    dtype = ref.dtype
    u, eta = gen.U.get(dtype, 2.0**-53), gen.ETA.get(dtype, 0.0)
    d64, r64 = d.to(torch.float64), ref.to(torch.float64)
    both_nan = torch.isnan(d64) & torch.isnan(r64)
    same_inf = torch.isinf(r64) & (d64 == r64)
    if klass in ("rescale", "neg"):
        ulow = max(u, info.get("u_src", u))
        eta_any = max(eta, info.get("eta_src", eta))
        tol = 4 * ulow * r64.abs() + info.get("cmax", 128.0) * eta_any + (1.0 + info.get("factor", 1.0)) * eta_any
        # at the edge of the dtype's range one rounding decides between the largest finite value and inf
        tol = torch.where(r64.abs() * (1 + 4 * ulow) >= gen.FMAX.get(dtype, 1e300), torch.full_like(tol, float("inf")), tol)
        if klass == "neg" and info.get("neg_unrepresentable") is not None:
            tol = tol + info["neg_unrepresentable"]
        bad = ~(both_nan | same_inf | ((d64 - r64).abs() <= tol))
        if bool(bad.any()):
            i = int(torch.nonzero(bad.reshape(-1))[0])
            out.fail(f"{tag}/value", f"{int(bad.sum())} elements beyond float rounding: quantized path {d64.reshape(-1)[i].item()!r} vs float op {r64.reshape(-1)[i].item()!r} ({describe(res)})")
        return
    if klass == "requant":
        if not isq(res):
            if not _teq(d, ref):
                out.fail(f"{tag}/value", "fallback result differs from the float op")
            return
        if isinstance(res, QBitsTensor):
            # an affine result: codes within one step of (float result / scale + zero-point), saturating at the ends of the range
            cc = cut(O.unpacked_codes, res)
            if isinstance(cc, Raised) or tuple(cc[0].shape) != tuple(ref.shape):
                return
            c, sg, zg = cc
            target = r64 / sg + zg
            if not info.get("nosat"):
                target = target.clamp(0, 2**res.qtype.bits - 1)
            target = torch.where(torch.isnan(target), c, target)
            tol = 1.0 + 2 * ((r64 / sg).abs() * u + eta / sg.abs()) + 1e-9
            bad = ~((c - target).abs() <= tol)
            if bool(bad.any()):
                i = int(torch.nonzero(bad.reshape(-1))[0])
                out.fail(f"{tag}/value", f"{int(bad.sum())} elements more than one output step away: float result/scale + zero-point {target.reshape(-1)[i].item()!r}, code {c.reshape(-1)[i].item()!r} ({describe(res)})")
            return
        if not isinstance(res, QBytesTensor):
            return
        G = O.grid(res.qtype)
        s = res._scale.to(torch.float64)
        s = s.expand(ref.shape) if s.ndim else s
        qq = r64 / s
        qq = torch.where(torch.isnan(qq), torch.zeros_like(qq), qq)
        c = O.codes64(res)
        _, lo, hi = O.nearest_dist(qq, G)
        step = (hi - lo)
        target = qq.clamp(G[0], G[-1])
        if info.get("nosat"):
            target = qq  # the result carries its own scale: nothing may saturate
        # (a scale in the subnormal range of its dtype is only representable to eta / 2: seen from the codes, that is a relative
        # error of eta / (2 scale) on every value -- the same allowance as for rescaling operations)
        tol = step + 2 * (target.abs() * u + eta) + target.abs() * eta / s.abs().clamp_min(1e-300) + 1e-300
        bad = ~((c - target).abs() <= tol)
        if bool(bad.any()):
            i = int(torch.nonzero(bad.reshape(-1))[0])
            out.fail(f"{tag}/value", f"{int(bad.sum())} elements more than one output step away: float result/scale {qq.reshape(-1)[i].item()!r}, code {c.reshape(-1)[i].item()!r} ({describe(res)})")
        return
    if klass == "contract":
        ref64, mag = info["ref64"], info["mag"]
        K = info["K"]
        tol = (K + 4) * u * mag + 3 * u * ref64.abs() + eta  # (no allowance for a scale product formed in reduced precision, D46)
        # (representable: also every partial sum, whatever the order of the accumulation)
        # ... with the head-room of the unscaled integer codes (operands holding finfo.min mask values are within 1 % of the end
        # of the range: the kernels sum activation x code products before the scale is applied, C07 judges that in its own terms)
        fin = torch.maximum(ref64.abs(), mag) * 128 + tol < gen.FMAX.get(dtype, 1e300)
        bad = fin & ~((d64 - ref64).abs() <= tol)
        if bool(bad.any()):
            i = int(torch.nonzero(bad.reshape(-1))[0])
            nonfin = not math.isfinite(d64.reshape(-1)[i].item())
            out.fail(f"{tag}/{'nonfinite' if nonfin else 'value'}", f"{int(bad.sum())} elements: quantized path {d64.reshape(-1)[i].item()!r} vs float64 reference {ref64.reshape(-1)[i].item()!r} (bound {tol.reshape(-1)[i].item():.3g}) ({describe(res)})")
        return


def compare(out, tag, klass, res, ref, info):
    if isinstance(ref, torch.Tensor):
        if isinstance(res, (list, tuple)):
            out.fail(f"{tag}/structure", "float op returns a tensor, quantized op a sequence")
            return
        compare_tensor(out, tag, klass, res, ref, info)
    elif isinstance(ref, (list, tuple)):
        if not isinstance(res, (list, tuple)) or len(res) != len(ref):
            out.fail(f"{tag}/structure", f"float op returns {len(ref)} tensors, quantized op {type(res).__name__} of {len(res) if isinstance(res, (list, tuple)) else '-'}")
            return
        for k, (x, y) in enumerate(zip(res, ref)):
            if isinstance(y, torch.Tensor):
                compare_tensor(out, tag, klass, x, y, info)
            elif x != y:
                out.fail(f"{tag}/value", f"element {k}: {x!r} != {y!r}")
    else:
        if isinstance(res, torch.Tensor) or res != ref:
            if not (isinstance(res, float) and isinstance(ref, float) and math.isnan(res) and math.isnan(ref)):
                out.fail(f"{tag}/value", f"{res!r} != {ref!r}")


# ----------------------------------------------------------------------------- interpreter

def _degenerate_scale(v):
    if not isq(v) or v.is_meta:
        return False
    sc = getattr(v, "_scale", None)
    return isinstance(sc, torch.Tensor) and not sc.is_meta and sc.numel() > 0 and not bool((torch.isfinite(sc) & (sc != 0)).all())


def _clone_keeping_expansion(cur, v):
    """independent copy of `cur` that keeps the expanded (stride 0) dimensions of v: an in-place write that torch refuses on v
    must stay refused on its twin"""
    size, stride = tuple(v.size()), tuple(v.stride())
    zero = [i for i, (n, st) in enumerate(zip(size, stride)) if st == 0 and n > 1]
    if not zero or tuple(cur.shape) != size:
        return cur.clone()
    base = cur
    for i in zero:
        base = base.narrow(i, 0, 1)
    return base.clone().expand(size)


def strided_twin(q):
    """float tensor with the size/stride the quantized wrapper reports (expanded dims included), filled with its
    dequantized values"""
    d = q.dequantize()
    size, stride = tuple(q.size()), tuple(q.stride())
    try:
        zero = [i for i, (n, st) in enumerate(zip(size, stride)) if st == 0 and n > 1]
        base = d
        for i in zero:
            base = base.narrow(i, 0, 1)
        t = torch.empty_strided(tuple(base.shape), stride, dtype=d.dtype)
        t.copy_(base)
        return t.expand(size) if zero else t
    except Exception:  # noqa: BLE001
        return d


def run_program(case, mode, out=None):
    """mode 'c05': per-step differential + frame condition;  'c06': invariant I after every step + move/copy clause."""
    out = out or Outcome()
    P = Pool()
    steps_done = []
    fast = 0
    consumed_result = False
    stats = {"steps": 0, "skipped": 0, "float_invalid": 0, "fastpath": 0}
    for step in case["steps"]:
        name = step["op"]
        if name.startswith("src_"):
            v = cut(make_source, name, step)
            if isinstance(v, Raised):
                out.fail(f"source/{name}/raises:{v.type}", v.text)
                continue
            tw = deq(v)
            tw = tw.clone() if isinstance(tw, torch.Tensor) else tw
            P.add(v, tw, name)
            if mode == "c06" and isq(v):
                O.check_invariant(out, f"{name}", v)
            continue
        bld = BUILDERS.get(name)
        if bld is None or not P.vals:
            stats["skipped"] += 1
            continue
        r = cut(bld, P, step["s"], step["a"], step["b"], step["c"], name)
        if isinstance(r, Raised):
            # building an operand (quantizing a fresh tensor with the scale / layout of an existing quantized one through the
            # public API) failed: the existing tensor does not have the form its metadata promises
            out.fail(f"{name}/operand-construction/raises:{r.type}", f"constructing a companion operand from a pool tensor raised {r.type}: {r.text}")
            stats["skipped"] += 1
            continue
        if r is None:
            stats["skipped"] += 1
            continue
        extra = r.get("extra", [])
        opspec = [o if isinstance(o, tuple) else ("p", o) for o in r["ops"]]
        # fresh operands become pool entries (sources) first
        xidx = []
        for kind, v in extra:
            tw = deq(v)
            xidx.append(P.add(v, tw.clone() if isinstance(tw, torch.Tensor) else tw, f"partner-{kind}"))
            if mode == "c06" and isq(v):
                O.check_invariant(out, f"partner-{kind}", v)
        idxs = [o[1] if o[0] == "p" else xidx[o[1]] for o in opspec]
        operands = [P.vals[i] for i in idxs]
        if not any(isq(o) for o in operands):
            stats["skipped"] += 1  # nothing quantized involved: not a statement about quanto
            continue
        if any(_degenerate_scale(o) for o in operands):
            # an operand whose scale has left the positive range of its dtype (overflowed to inf, underflowed to 0 after
            # repeated rescaling): it denotes inf / nan / 0 everywhere, the program is outside the domain of representable values
            stats["degenerate_operand"] = stats.get("degenerate_operand", 0) + 1
            continue
        f = r["f"]
        klass = r["klass"]
        kinds = "+".join(kind_key(o) for o in operands)
        k0 = next(kind_key(o) for o in operands if isq(o))
        tag = f"{name}/{k0}"
        inplace = r.get("inplace")
        # ---- float reference on the CURRENT dequantized operands
        dops = cut(lambda: [deq(o) for o in operands])
        if isinstance(dops, Raised):
            stats["skipped"] += 1  # an operand is already broken (reported when it was produced)
            continue
        if inplace is not None:
            dops[inplace] = dops[inplace].clone()
        ref = cut(f, *dops)
        if isinstance(ref, Raised):
            stats["float_invalid"] += 1
            continue
        if klass == "rescale" and isinstance(ref, torch.Tensor) and ref.dtype.is_floating_point and not bool(torch.isfinite(ref).all()) \
                and all(bool(torch.isfinite(d_).all()) for d_ in dops if isinstance(d_, torch.Tensor) and d_.dtype.is_floating_point):
            # a rescaling whose FLOAT result leaves the dtype's range (x * 1e3 * 1e3 in float16): the program is outside the domain
            # where values are representable (a quantized tensor whose scale overflowed denotes inf / nan everywhere)
            stats["float_overflow"] = stats.get("float_overflow", 0) + 1
            continue
        if r.get("stride_sensitive"):
            sops = [strided_twin(o) if isq(o) else o for o in operands]
            ref2 = cut(f, *sops)
            if isinstance(ref2, Raised):
                stats["float_invalid"] += 1
                continue
        # ---- snapshot for the frame condition
        before = None
        tw_before = [t.clone() if isinstance(t, torch.Tensor) else t for t in P.twins] if (mode == "c05" or inplace is not None) else None
        if inplace is not None:
            # an in-place op must also be valid on the float twins, which carry the aliasing structure (expanded
            # destinations, source overlapping the destination ...)
            twres = cut(f, *[P.twins[i] for i in idxs])
            if isinstance(twres, Raised):
                stats["float_invalid"] += 1
                continue
        if mode == "c05":
            before = cut(lambda: [deq(v).clone() if isinstance(v, torch.Tensor) else v for v in P.vals])
            if isinstance(before, Raised):
                stats["skipped"] += 1
                continue
        info = {}
        if klass == "contract":
            a64 = [d.to(torch.float64) for d in dops]
            if r["contract"] == "linear":
                ref64 = a64[0] @ a64[1].t()
                mag = a64[0].abs() @ a64[1].abs().t()
                if r.get("bias") is not None:
                    bb = r["bias"].to(torch.float64)
                    ref64 = ref64 + bb
                    mag = mag + bb.abs()
                K = dops[0].shape[-1]
            else:
                ref64 = torch.matmul(a64[0], a64[1])
                mag = torch.matmul(a64[0].abs(), a64[1].abs())
                K = dops[0].shape[-1]
            info = {"ref64": ref64, "mag": mag, "K": K}
            if all(isinstance(o, QBytesTensor) for o in operands):
                # the documented mechanism multiplies the two scales in the working dtype: when that product is in the
                # subnormal range its absolute error (eta/2) is amplified by the sum of code products
                sa = operands[0]._scale.to(torch.float64).abs().min()
                sb = operands[1]._scale.to(torch.float64).abs().min()
                info["cmax2"] = float((mag / (sa * sb)).max()) / max(K, 1) if float(sa * sb) > 0 else 1.0
        if klass == "requant" and ((inplace is not None and name != "copy_") or name == "where"):
            info["nosat"] = True  # the result either carries its own scale or stays float: nothing may saturate
        if klass in ("rescale", "neg"):
            src = operands[0]
            info["factor"] = r.get("factor", 1.0)
            for o in operands[1:]:
                if isinstance(o, torch.Tensor) and o.dtype in gen.U:
                    info["u_src"] = max(info.get("u_src", 0), gen.U[o.dtype])
                    info["eta_src"] = max(info.get("eta_src", 0), gen.ETA[o.dtype])
            if isq(src):
                info["u_src"] = max(info.get("u_src", 0), gen.U.get(src.dtype, 0))
                info["eta_src"] = max(info.get("eta_src", 0), gen.ETA.get(src.dtype, 0))
                qops = [o for o in operands if isinstance(o, QBytesTensor) and o.numel()]
                if qops:
                    info["cmax"] = max(float(O.codes64(o).abs().max()) for o in qops)
                if isinstance(src, QBytesTensor):
                    if klass == "neg" and not src.qtype.is_floating_point:
                        # -(-128) is not representable: one step of the scale is allowed there
                        sc = src._scale.to(torch.float64)
                        sc = sc.expand(src.shape) if sc.ndim else sc
                        info["neg_unrepresentable"] = torch.where(O.codes64(src) == -128, sc.abs() * 1.0, torch.zeros_like(sc * O.codes64(src)))
        # ---- the quantized program
        res = cut(f, *operands)
        stats["steps"] += 1
        ok_result = True
        if isinstance(res, Raised):
            refusal = False
            if res.type == "ValueError" and any(isinstance(o, QBitsTensor) for o in operands) and r.get("dtype_move") is not None:
                refusal = True  # documented: the dtype of a packed low-bit tensor cannot be changed
            if refusal:
                stats["refusals"] = stats.get("refusals", 0) + 1
            elif mode == "c05":
                shared = (name == "copy_" and all(isinstance(o, QBytesTensor) for o in operands)
                          and operands[0]._data.untyped_storage().data_ptr() == operands[1]._data.untyped_storage().data_ptr())
                if r.get("shape_change") and res.type == "NotImplementedError" and tuple(ref.shape) != tuple(operands[0].shape):
                    out.fail("inplace-shape-change/raises:NotImplementedError", f"{name}: {res.text}")
                elif shared:
                    # destination and source are logically independent (their float twins do not overlap) but share a payload
                    out.fail("copy_/operands-sharing-payload/raises", f"float program valid but quantized program raises {res.type}: {res.text}")
                else:
                    out.fail(f"{tag}/raises:{res.type}", f"float program valid but quantized program raises {res.type}: {res.text}")
            continue
        if any(_degenerate_scale(x_) for x_ in (list(res) if isinstance(res, (list, tuple)) else [res])):
            stats["degenerate_result"] = stats.get("degenerate_result", 0) + 1  # (see above; an in-place destination stays in the pool and is skipped from now on)
            continue
        if mode == "c05":
            n0 = len(out.failures)
            if klass == "meta":
                if not (isinstance(res, torch.Tensor) and tuple(res.shape) == tuple(ref.shape) and res.dtype == ref.dtype):
                    out.fail(f"{tag}/shape", "to('meta') changes shape/dtype")
            else:
                compare(out, tag, klass, res, ref, info)
            ok_result = len(out.failures) == n0
            # frame condition: entries whose float twin is not changed by the op must keep their dequantized value
            if inplace is None:
                twres = cut(f, *[P.twins[i] for i in idxs])
            for j, v in enumerate(P.vals):
                if not isinstance(v, torch.Tensor):
                    continue
                # entries the float program may change: the destination of an in-place op and its float aliases (twins that
                # share the destination twin's storage) -- decided by storage, not by values (twins drift from the quantized
                # values by rounding, so "the copy wrote identical values" must not be mistaken for "untouched")
                tw_changed = False
                if inplace is not None and isinstance(P.twins[j], torch.Tensor):
                    dtw = P.twins[idxs[inplace]]
                    tw_changed = j == idxs[inplace] or (isinstance(dtw, torch.Tensor) and P.twins[j].untyped_storage().data_ptr() == dtw.untyped_storage().data_ptr())
                if tw_changed:
                    if inplace is not None and j != idxs[inplace]:
                        # a float alias of the destination: the quantized world may legitimately hold an independent
                        # copy there (results of fallbacks are new tensors). Re-synchronise the twin with what the
                        # user can observe, so that later frame checks compare like with like.
                        if v is operands[inplace]:
                            P.twins[j] = P.twins[idxs[inplace]]  # the very same object under another pool index (x.to(its own dtype) is x)
                            continue
                        same = next((k for k in range(j) if P.vals[k] is v and k != idxs[inplace]), None)
                        if same is not None:
                            P.twins[j] = P.twins[same]  # one object, one twin (it was re-synchronised under its first index)
                            continue
                        cur = cut(deq, v)
                        if isinstance(cur, torch.Tensor):
                            P.twins[j] = _clone_keeping_expansion(cur, v)
                    continue
                now = cut(deq, v)
                if isinstance(now, Raised) or not isinstance(now, torch.Tensor) or not _teq(now, before[j]):
                    dest = operands[inplace] if inplace is not None else None
                    def _ptr(t):
                        t = getattr(t, "_data", t) if not isinstance(t, torch.Tensor) or hasattr(t, "_bits") else t
                        return t.untyped_storage().data_ptr()

                    shared = isq(v) and isq(dest) and (_ptr(v._scale) == _ptr(dest._scale) or _ptr(v._data) == _ptr(dest._data))
                    who = "bystander-sharing-inner-tensors" if shared else f"{kind_key(v)}-bystander"
                    if shared:
                        # the op that made the two tensors share: the producer of the younger of the two entries. The recorded
                        # finding covers the operations that are known to hand their input's scale / payload on by reference;
                        # sharing introduced by any other operation (e.g. a clone that is not a copy) is a new root cause.
                        maker = P.origin[max(j, idxs[inplace])]
                        if maker not in SHARING_OPS:
                            who = f"bystander-sharing-inner-tensors-via-{maker}"
                    out.fail(f"{name}/frame/{who}", f"step {name} on {kinds} changed pool entry {j} ({describe(v)}, made by {P.origin[j]}) that the float program leaves untouched")
                    break
        elif inplace is None:
            twres = cut(f, *[P.twins[i] for i in idxs])
        # ---- add results to the pool
        flat_res = list(res) if isinstance(res, (list, tuple)) else [res]
        flat_tw = list(twres) if isinstance(twres, (list, tuple)) else [twres] * len(flat_res)
        if isinstance(twres, Raised) or len(flat_tw) != len(flat_res):
            flat_tw = [deq(x) for x in flat_res]
        anyq = False
        for x, tw in zip(flat_res, flat_tw):
            if isinstance(x, torch.Tensor) and not x.is_meta:
                if isq(x):
                    anyq = True
                    if mode == "c06":
                        n0 = len(out.failures)
                        O.check_invariant(out, f"{name}/{kinds}", x)
                        if len(out.failures) != n0:
                            ok_result = False
                        if r.get("copyop") and isq(operands[0]):
                            move_clause(out, f"{name}/{kinds}", operands[0], x, r.get("dtype_move"))
                if ok_result and inplace is None and x.numel() > 0:  # (empty results are checked, not fed to later steps)
                    P.add(x, tw if isinstance(tw, torch.Tensor) else deq(x), name, derived=True)
        if anyq:
            fast += 1
        if any(P.qdep[i] for i in idxs):
            consumed_result = True
        steps_done.append((name, kinds, "q" if anyq else "f"))
    stats["fastpath"] = fast
    out.nontrivial = stats["steps"] >= 2 and fast >= 1 and consumed_result
    out.fingerprint = steps_done
    out.klass = [f"op-{n}" for n, _, _ in steps_done] + [f"operands-{k}" for _, k, _ in steps_done][:6]
    out.notes = stats
    return out


def move_clause(out, tag, src, res, dtype_move):
    """clone / detach / deepcopy / to(copy) / to(dtype): codes and metadata unchanged, only the scale's dtype may change"""
    if type(res) is not type(src):
        return  # falling back to another representation is allowed; the invariant has been checked already
    if res.qtype != src.qtype or res.axis != src.axis or getattr(res, "_group_size", None) != getattr(src, "_group_size", None):
        out.fail(f"{tag}/move/metadata", f"{describe(src)} -> {describe(res)}")
        return
    if tuple(res.shape) != tuple(src.shape):
        out.fail(f"{tag}/move/shape", f"the copy reports shape {tuple(res.shape)}, its source {tuple(src.shape)}")
        return
    if isinstance(src, QBytesTensor):
        same = src._data.dtype == res._data.dtype and tuple(src._data.shape) == tuple(res._data.shape) and torch.equal(src._data.view(torch.uint8), res._data.view(torch.uint8))
    else:
        same = torch.equal(src._data.unpack(), res._data.unpack()) and torch.equal(src._zeropoint, res._zeropoint)
    if not same:
        out.fail(f"{tag}/move/codes", "a move/copy altered the codes")
        return
    want = src._scale if dtype_move is None else src._scale.to(dtype_move)
    if res._scale.dtype != want.dtype or not _teq(res._scale, want):
        out.fail(f"{tag}/move/scale", f"scale changed beyond its dtype: {src._scale.dtype} -> {res._scale.dtype}")
