"""C14 — configurations are either rejected with ValueError or fully honoured (enumeration of the configuration grid)."""
import itertools

import torch

from vlib import gen
from vlib import oracle as O
from vlib.core import Outcome, Raised, cut, enumerate_cases

from checks import common_rows as R

from optimum.quanto import AbsmaxOptimizer, MaxOptimizer, Optimizer, QBitsTensor, QBytesTensor, quantize_activation, quantize_weight
from optimum.quanto.nn import QConv2d, QLinear
from optimum.quanto.tensor.quantizers import AffineQuantizer, SymmetricQuantizer

SHAPES = [[1], [7], [1, 1], [4, 1], [1, 4], [3, 4], [4, 4], [6, 8], [2, 3, 4], [1, 3, 4], [2, 3, 1], [4, 4, 4], [2, 2, 2, 2], [3, 1, 2, 2]]
AXES = [None, -2, -1, 0, 1, 2]
QNAMES = sorted(O.QTALL)


class ForeignOptimizer(Optimizer):
    def __call__(self, base, bits, axis, group_size=None):
        return torch.ones((), dtype=base.dtype)


OPTS = {"none": lambda: None, "absmax": AbsmaxOptimizer, "max": MaxOptimizer, "foreign": ForeignOptimizer}


def tensor_for(shape, dtype, seed):
    g = torch.Generator().manual_seed(seed)
    n = 1
    for s in shape:
        n *= s
    v = torch.randn(n, generator=g, dtype=torch.float64) * 2
    v[::3] += 1.5  # not centred: one-sided groups occur
    return v.reshape(shape).to(dtype)


def classify(r):
    if isinstance(r, Raised):
        return "ValueError" if r.type == "ValueError" else f"raises:{r.type}"
    return "accepted"


def check_accepted_weight(out, tag, x, q, qtype, axis, gs):
    """a returned tensor must carry exactly the requested configuration and satisfy I, N / A"""
    low = qtype.bits < 8
    if low:
        if not isinstance(q, QBitsTensor):
            return out.fail(f"{tag}/accepted/wrong-class", type(q).__name__)
        want_axis = axis
    else:
        if not isinstance(q, QBytesTensor):
            return out.fail(f"{tag}/accepted/wrong-class", type(q).__name__)
        want_axis = None if x.shape[axis] == 1 else (0 if axis == 0 else -1)
    if q.qtype != qtype or q.axis != want_axis or getattr(q, "_group_size", None) != gs:
        out.fail(f"{tag}/accepted/not-honoured", f"requested {qtype.name} axis {axis} group {gs} on shape {tuple(x.shape)}: got {q.qtype.name} axis {q.axis} group {getattr(q, '_group_size', None)}")
    O.check_invariant(out, f"{tag}/accepted", q)
    if out.failures:
        return
    if low:
        gid, ng = R.groups_of(list(x.shape), axis, gs)
        d = cut(q.dequantize)
        if isinstance(d, Raised):
            return out.fail(f"{tag}/accepted/dequantize-raises:{d.type}", d.text)
        bound, step, lo, hi = O.affine_bound(x.to(torch.float64), gid, ng, qtype.bits, x.dtype)
        bad = ~((d.to(torch.float64) - x.to(torch.float64)).abs() <= bound)
        if bool(bad.any()):
            out.fail(f"{tag}/accepted/error-bound", f"accepted configuration {qtype.name} axis {axis} group {gs} shape {tuple(x.shape)} breaks the half-step bound")
    else:
        O.check_N(out, f"{tag}/accepted", x, q._scale, q, qtype, idem=False)


def must_reject_weight(shape, qtype, axis, gs, opt):
    """configurations the property lists as unsupported"""
    if axis not in (0, -1):
        return "axis"
    low = qtype.bits < 8
    if not low and gs is not None:
        return "group-with-8bit"
    if opt == "foreign" or (low and opt == "absmax") or (not low and opt == "max"):
        return "optimizer-family"
    if low and gs is not None:
        n = 1
        for s in shape:
            n *= s
        per = n // shape[axis]
        if gs > per or per % gs != 0:
            return "group-not-divisor"
    return None


def exec_weight(case):
    out = Outcome()
    shape, qn, axis, gs, opt = case["shape"], case["qtype"], case["axis"], case["group_size"], case["optimizer"]
    qtype = O.QTALL[qn]
    dtype = gen.DT[case["dtype"]]
    x = tensor_for(shape, dtype, case.get("seed", 0))
    # the qtype object as the caller holds it: the module-level singleton, or an equal copy (unpickled in a worker process,
    # deep-copied with a configuration object)
    qarg = qtype
    how = (len(shape) + (axis or 0) + (gs or 0) + sum(shape)) % 4
    if how == 1:
        import copy

        qarg = copy.deepcopy(qtype)
    elif how == 2:
        import pickle

        qarg = pickle.loads(pickle.dumps(qtype))
    r = cut(quantize_weight, x, qarg, axis, gs, OPTS[opt]())
    kind = classify(r)
    why = must_reject_weight(shape, qtype, axis, gs, opt)
    tag = "quantize_weight"
    out.klass = [f"outcome-{kind}", qn, f"axis{axis}", f"opt-{opt}", f"rank{len(shape)}", "must-reject-" + why if why else "supported?"]
    out.fingerprint = [shape, qn, axis, gs, opt, case["dtype"]]
    out.nontrivial = not (axis == 0 and gs in (None, 8) and shape in ([32, 32], [32, 10, 32]))
    if kind.startswith("raises:"):
        out.fail(f"{tag}/{kind}/{why or 'supported-looking'}", f"{r.text} (shape {shape}, {qn}, axis {axis}, group {gs}, optimizer {opt})")
    elif kind == "ValueError" and why is None and len(shape) >= 2:
        # not one of the unsupported configurations the property lists (rank-1 tensors are left open: quanto refuses them for 8-bit)
        out.fail(f"{tag}/rejected-supported", f"{r.text} (shape {shape}, {qn}, axis {axis}, group {gs}, optimizer {opt})")
    elif kind == "accepted":
        if why is not None:
            out.fail(f"{tag}/accepted-unsupported/{why}", f"shape {shape}, {qn}, axis {axis}, group {gs}, optimizer {opt} returned a {type(r).__name__} instead of raising ValueError")
        else:
            check_accepted_weight(out, tag, x, r, qtype, axis, gs)
    return out


def weight_grid(maxshape=14):
    for shape in SHAPES[:maxshape]:
        n = 1
        for s in shape:
            n *= s
        groups = [None] + list(range(1, 2 * max(n, 2) + 1))
        for qn in QNAMES:
            for axis in AXES:
                for gs in groups:
                    for opt in OPTS:
                        yield {"shape": shape, "qtype": qn, "axis": axis, "group_size": gs, "optimizer": opt, "dtype": "fp32" if (n + (gs or 0)) % 3 else "fp16"}


# ----------------------------------------------------------------------------- quantizers with explicit scales

def scale_variants(shape, dtype):
    """named scale tensors for a source of `shape`"""
    v = {"scalar": torch.tensor(0.05, dtype=dtype), "one-elem-1d": torch.full((1,), 0.05, dtype=dtype), "one-elem-nd": torch.full([1] * max(1, len(shape)), 0.05, dtype=dtype)}
    if len(shape) >= 1:
        for ax, name in ((0, "axis0"), (-1, "axis-1")):
            s = [1] * len(shape)
            s[ax] = shape[ax]
            v[f"{name}-keepdim"] = (torch.arange(shape[ax], dtype=torch.float64) * 0.01 + 0.02).reshape(s).to(dtype)
            v[f"{name}-flat"] = (torch.arange(shape[ax], dtype=torch.float64) * 0.01 + 0.02).to(dtype)
        v["full"] = torch.full(shape, 0.05, dtype=dtype)
    return v


def exec_symmetric(case):
    out = Outcome()
    shape, qn, axis, sv, entry = case["shape"], case["qtype"], case["axis"], case["scale"], case["entry"]
    qtype = O.QT8[qn]
    dtype = gen.DT[case["dtype"]]
    x = tensor_for(shape, dtype, 1)
    scale = scale_variants(shape, dtype)[sv]
    if entry == "quantize_activation":
        r = cut(quantize_activation, x, qtype, scale)
        axis = None
    else:
        r = cut(SymmetricQuantizer.apply, x, qtype, axis, scale)
    kind = classify(r)
    tag = entry
    out.klass = [f"outcome-{kind}", qn, f"axis{axis}", f"scale-{sv}", entry]
    out.fingerprint = [shape, qn, axis, sv, entry]
    out.nontrivial = True
    # what the property lists as unsupported
    why = None
    if entry == "quantize_activation":
        if scale.numel() != 1 or scale.ndim > 0:
            why = "non-scalar-activation-scale"
    else:
        nd = len(shape)
        if axis is None:
            if scale.ndim > 0:
                why = "non-scalar-scale-per-tensor"
        else:
            norm = axis if axis >= 0 else axis + nd
            if nd >= 2 and 0 <= norm < nd and norm in (0, nd - 1) and axis not in (0, -1, nd - 1):
                # the first axis spelled -ndim: quanto documents 0 and -1 only; neither outcome is judged
                out.discard = True
                return out
            if nd < 2 or norm not in (0, nd - 1) or not (0 <= norm < nd):
                why = "axis"
            elif shape[norm] == 1:
                why = "axis-of-size-one"
            else:
                want = [1] * nd
                want[norm] = shape[norm]
                if list(scale.shape) != want:
                    why = "scale-does-not-match-axis"
    if kind.startswith("raises:"):
        out.fail(f"{tag}/{kind}/{why or 'supported-looking'}", f"{r.text} (shape {shape}, {qn}, axis {axis}, scale {sv} {tuple(scale.shape)})")
    elif kind == "ValueError" and why is None and (axis is None or len(shape) >= 2):
        out.fail(f"{tag}/rejected-supported", f"{r.text} (shape {shape}, {qn}, axis {axis}, scale {sv} {tuple(scale.shape)})")
    elif kind == "accepted":
        if why is not None:
            out.fail(f"{tag}/accepted-unsupported/{why}", f"shape {shape}, {qn}, axis {axis}, scale {sv} {tuple(scale.shape)}: returned a tensor declaring axis {getattr(r, 'axis', '?')} instead of raising ValueError")
        else:
            nd = len(shape)
            want_axis = None if axis is None else (0 if (axis % nd) == 0 else -1)
            if not isinstance(r, QBytesTensor) or r.qtype != qtype or r.axis != want_axis:
                out.fail(f"{tag}/accepted/not-honoured", f"requested {qn} axis {axis}: got axis {getattr(r, 'axis', None)}")
            O.check_invariant(out, f"{tag}/accepted", r)
            if not out.failures:
                O.check_N(out, f"{tag}/accepted", x, scale, r, qtype, idem=False)
    return out


def symmetric_grid():
    for shape in [[5], [1, 1], [4, 1], [1, 4], [3, 4], [4, 4], [2, 3, 4], [4, 4, 4], [3, 1, 2, 2]]:
        for qn in sorted(O.QT8):
            for sv in scale_variants(shape, torch.float32):
                yield {"shape": shape, "qtype": qn, "axis": None, "scale": sv, "entry": "quantize_activation", "dtype": "fp32"}
                for axis in [None, -2, -1, 0, 1, 2, 3]:
                    yield {"shape": shape, "qtype": qn, "axis": axis, "scale": sv, "entry": "SymmetricQuantizer", "dtype": "fp16" if len(shape) == 3 else "fp32"}


def exec_affine(case):
    out = Outcome()
    shape, qn, axis, gs, sv = case["shape"], case["qtype"], case["axis"], case["group_size"], case["scale"]
    qtype = O.QTALL[qn]
    dtype = gen.DT[case["dtype"]]
    x = tensor_for(shape, dtype, 2)
    low = qtype.bits < 8
    valid_axis = axis in (0, -1)
    n = x.numel()
    per = n // shape[axis] if valid_axis else None
    valid_group = gs is None or (valid_axis and gs <= per and per % gs == 0)
    # the correctly shaped scale / zero-point for this request (when the request itself is well formed)
    if valid_axis and valid_group and len(shape) >= 1:
        if len(shape) == 1:
            ng = 1 if gs is None else n
            right = (1,) if gs is None else ((ng, 1) if axis == 0 else (1, ng))
        elif gs is None:
            right = [1] * len(shape)
            right[axis] = shape[axis]
            right = tuple(right)
        else:
            ng = shape[axis] * (per // gs)
            right = (ng, 1) if axis == 0 else (1, ng)
    else:
        right = (1,)
    shapes = {"right": right, "scalar": (), "transposed": tuple(reversed(right)), "one-more": tuple(right[:-1]) + (right[-1] + 1,) if len(right) else (2,)}
    ss = shapes[sv]
    # the zero-point comes with the shape of the scale, or (an asymmetric pair) with ANOTHER of these shapes
    zs = shapes[case.get("zp", sv) if case.get("zp", "same") != "same" else sv]
    scale = torch.full(ss, 0.3, dtype=dtype)
    zp = torch.full(zs, 1, dtype=torch.int8)
    r = cut(AffineQuantizer.apply, x, qtype, axis, gs, scale, zp)
    kind = classify(r)
    tag = "AffineQuantizer"
    why = None
    if not low:
        why = "qtype-family"
    elif not valid_axis:
        why = "axis"
    elif not valid_group:
        why = "group-not-divisor"
    elif tuple(ss) != tuple(right) or tuple(zs) != tuple(right):
        why = "scale-does-not-match-request"
    out.klass = [f"outcome-{kind}", qn, f"axis{axis}", f"scale-{sv}", "must-reject-" + why if why else "supported"]
    out.fingerprint = [shape, qn, axis, gs, sv, case.get("zp", "same")]
    out.nontrivial = True
    if kind.startswith("raises:"):
        out.fail(f"{tag}/{kind}/{why or 'supported-looking'}", f"{r.text} (shape {shape}, {qn}, axis {axis}, group {gs}, scale shape {tuple(ss)}, zero-point shape {tuple(zs)})")
    elif kind == "ValueError" and why is None and len(shape) >= 2:
        out.fail(f"{tag}/rejected-supported", f"{r.text} (shape {shape}, {qn}, axis {axis}, group {gs}, scale shape {tuple(ss)})")
    elif kind == "accepted":
        if why in ("qtype-family", "axis", "group-not-divisor"):
            out.fail(f"{tag}/accepted-unsupported/{why}", f"shape {shape}, {qn}, axis {axis}, group {gs}: accepted")
        elif why is None:
            if not isinstance(r, QBitsTensor) or r.qtype != qtype or r.axis != axis or r._group_size != gs:
                out.fail(f"{tag}/accepted/not-honoured", f"requested {qn} axis {axis} group {gs}")
            O.check_invariant(out, f"{tag}/accepted", r)
        else:
            # a scale that does not match the request but was accepted: the result must at least be a consistent tensor
            n0 = len(out.failures)
            O.check_invariant(out, f"{tag}/accepted-mismatched-scale", r)
            if len(out.failures) != n0:
                out.failures = out.failures[:n0]
                out.fail(f"{tag}/accepted-unsupported/{why}", f"shape {shape}, {qn}, axis {axis}, group {gs}, scale/zero-point of shape {tuple(ss)} (expected {tuple(right)}) accepted and returned an inconsistent tensor")
    return out


def affine_grid():
    for shape in [[6], [4, 1], [1, 4], [3, 4], [4, 4], [2, 3, 4], [2, 2, 2, 2]]:
        n = 1
        for s in shape:
            n *= s
        for qn in QNAMES:
            for axis in AXES:
                for gs in [None, 1, 2, 3, 4, 5, 6, 8, 12, n, 2 * n]:
                    for sv in ("right", "scalar", "transposed", "one-more"):
                        yield {"shape": shape, "qtype": qn, "axis": axis, "group_size": gs, "scale": sv, "dtype": "fp32"}
                        for zv in ("right", "scalar", "one-more"):
                            if zv != sv and (gs is None or gs in (2, n)):
                                yield {"shape": shape, "qtype": qn, "axis": axis, "group_size": gs, "scale": sv, "zp": zv, "dtype": "fp32"}


# ----------------------------------------------------------------------------- the optimizers and group() called directly

def exec_optimizer(case):
    """The validation the entry points rely on, at its source: the optimizers' own axis checks and group()'s divisor check.
    Either ValueError, or scales (and zero-points) with exactly one value per kept index / group."""
    out = Outcome()
    shape, axis, gs, which, bits = case["shape"], case["axis"], case["group_size"], case["opt"], case["bits"]
    x = tensor_for(shape, torch.float32, 11)
    n = x.numel()
    rank = len(shape)
    tag = f"optimizer/{which}"
    out.fingerprint = [shape, axis, gs, which, bits]
    out.klass = [which, f"axis-{axis}", "grouped" if gs else "ungrouped", f"rank{rank}"]
    out.nontrivial = axis not in (0, -1) or gs is not None
    if which == "group":
        from optimum.quanto.tensor.qbits.group import group

        r = cut(group, x, axis, gs)
    elif which == "absmax":
        r = cut(AbsmaxOptimizer(), x, bits, axis)
    else:
        r = cut(MaxOptimizer(), x, bits, axis, gs) if gs is not None else cut(MaxOptimizer(), x, bits, axis)
    bad_axis = axis not in ((None, 0, -1) if which == "absmax" else (0, -1))
    per = None if bad_axis or axis is None else n // shape[axis]
    bad_group = gs is not None and not bad_axis and (gs > per or per % gs != 0)
    if isinstance(r, Raised):
        if r.type != "ValueError":
            out.fail(f"{tag}/raises:{r.type}/{'unsupported' if bad_axis or bad_group else 'supported'}", f"{shape} axis {axis} group {gs}: {r.text}")
        elif not (bad_axis or bad_group) and rank >= 2:
            out.fail(f"{tag}/rejected-supported", f"{shape} axis {axis} group {gs}: {r.text}")
        return out
    if bad_axis or bad_group:
        out.fail(f"{tag}/accepted-unsupported/{'axis' if bad_axis else 'group-size'}", f"{shape} axis {axis} group {gs} returned {type(r).__name__}")
        return out
    if rank < 2:
        return out  # rank-1 reductions are C03's subject (the whole vector is one group)
    if which == "group":
        want = (n // gs, gs) if axis == 0 else (gs, n // gs)
        if tuple(r.shape) != want:
            out.fail(f"{tag}/shape", f"group({shape}, axis {axis}, {gs}) has shape {tuple(r.shape)}, expected {want}")
        elif sorted(r.reshape(-1).tolist()) != sorted(x.reshape(-1).tolist()):
            out.fail(f"{tag}/values", "grouping does not preserve the multiset of values")
        return out
    scale, zp = (r, None) if which == "absmax" else r
    if axis is None:
        want = ()
    elif gs is None:
        want = tuple(shape[i] if i == (0 if axis == 0 else rank - 1) else 1 for i in range(rank))
    else:
        want = (n // gs, 1) if axis == 0 else (1, n // gs)
    ok_shapes = {want}
    if axis is None:
        ok_shapes.add((1,) * rank)
    if tuple(scale.shape) not in ok_shapes or scale.dtype != x.dtype:
        out.fail(f"{tag}/scale-form", f"{shape} axis {axis} group {gs}: scale {tuple(scale.shape)} {scale.dtype}, expected {want}")
    if zp is not None and (tuple(zp.shape) != tuple(scale.shape) or zp.dtype != torch.int8):
        out.fail(f"{tag}/zeropoint-form", f"{tuple(zp.shape)} {zp.dtype}")
    return out


def optimizer_grid():
    for shape in [[6], [4, 1], [1, 4], [3, 4], [4, 4], [2, 3, 4], [4, 4, 4], [2, 2, 2, 2]]:
        n = 1
        for s in shape:
            n *= s
        for axis in AXES + [3, -3]:
            for bits in (8, 4, 2):
                yield {"opt": "absmax", "shape": shape, "axis": axis, "group_size": None, "bits": bits}
            for gs in [None, 1, 2, 3, 4, 5, 6, 8, 12, n, 2 * n]:
                for bits in (4, 2):
                    yield {"opt": "max", "shape": shape, "axis": axis, "group_size": gs, "bits": bits}
                if gs is not None:
                    yield {"opt": "group", "shape": shape, "axis": axis, "group_size": gs, "bits": 4}


# ----------------------------------------------------------------------------- automatic group size

def exec_group(case):
    out = Outcome()
    qtype = O.QTALL[case["qtype"]]
    if case.get("inf", case.get("cin", 0)) % 3 == 1:
        import copy

        qtype = copy.deepcopy(qtype)  # an equal copy of the qtype object (see exec_weight)
    qarg = qtype
    if case.get("inf", case.get("cin", 0)) % 3 == 2:
        qarg = case["qtype"]  # the qtype given by NAME (a supported spelling): the same configuration
    if case["kind"] == "linear":
        inf = case["inf"]
        m = cut(lambda: QLinear(inf, 3, bias=False, device="meta", weights=qarg))
        per = inf
    else:
        cin, groups, kh, kw = case["cin"], case["groups"], case["kh"], case["kw"]
        m = cut(lambda: QConv2d(cin, groups * 2, (kh, kw), groups=groups, bias=False, device="meta", weights=qarg))
        per = cin // groups * kh * kw
    out.fingerprint = [case[k] for k in sorted(case)]
    out.nontrivial = not (case["kind"] == "linear" and case.get("inf") in (8, 16, 32, 64, 128, 256))
    out.klass = [case["kind"], case["qtype"]]
    if isinstance(m, Raised):
        return out.fail(f"auto-group/{case['kind']}/construct-raises:{m.type}", m.text)
    gs = m.weight_group_size
    out.klass.append(f"group-{gs}")
    if qtype.bits == 8:
        if gs is not None:
            out.fail("auto-group/8bit-has-group", f"{gs}")
        return out
    if gs is not None and (gs not in (32, 64, 96, 128) or per % gs != 0):
        out.fail("auto-group/not-a-divisor", f"per-output element count {per}: chosen group size {gs}")
    if gs is None and per > 128 and per % 32 == 0:
        out.fail("auto-group/missing", f"per-output element count {per} has a divisor among 128/96/64/32 but no group size was chosen")
    if gs is not None and per <= 128:
        out.fail("auto-group/small-input-grouped", f"per-output element count {per} <= 128 got group size {gs}")
    if case.get("run"):
        # the module really runs with that group size
        g = torch.Generator().manual_seed(per)
        if case["kind"] == "linear":
            real = QLinear(case["inf"], 3, bias=True, weights=qtype)
            x = torch.randn(2, case["inf"], generator=g)
        else:
            real = QConv2d(cin, groups * 2, (kh, kw), groups=groups, bias=True, weights=qtype)
            x = torch.randn(1, cin, kh + 1, kw + 2, generator=g)
        with torch.no_grad():
            y = cut(real, x)
        if isinstance(y, Raised):
            out.fail(f"auto-group/{case['kind']}/forward-raises:{y.type}", f"{y.text} (per-output count {per}, group {gs})")
        elif not bool(torch.isfinite(y).all()):
            out.fail(f"auto-group/{case['kind']}/nonfinite", f"per-output count {per}")
        else:
            real.freeze()
            with torch.no_grad():
                y2 = cut(real, x)
            if isinstance(y2, Raised) or not torch.equal(y, y2):
                out.fail(f"auto-group/{case['kind']}/frozen-differs", f"per-output count {per}, group {gs}")
        # the optimizer argument of a MODULE is subject to the same accept-or-reject rule: the wrong family is rejected with
        # ValueError when the weights are quantized (forward / freeze), the right family is the one actually used
        import torch.nn as nn

        from optimum.quanto import AbsmaxOptimizer as _Abs, MaxOptimizer as _Max
        from checks import models as _M

        float_mod = nn.Linear(case["inf"], 3, bias=True) if case["kind"] == "linear" else nn.Conv2d(cin, groups * 2, (kh, kw), groups=groups, bias=True)
        qcls = QLinear if case["kind"] == "linear" else QConv2d
        wrong = _Max() if qtype.bits == 8 else _Abs()
        mw = cut(lambda: qcls.from_module(float_mod, weights=qtype, optimizer=wrong))
        if not isinstance(mw, Raised):
            with torch.no_grad():
                yw = cut(mw, x)
            if not (isinstance(yw, Raised) and yw.type == "ValueError"):
                out.fail(f"auto-group/{case['kind']}/optimizer-wrong-family-accepted", f"{type(wrong).__name__} on {case['qtype']} weights: forward {'returned' if not isinstance(yw, Raised) else 'raised ' + yw.type} instead of raising ValueError")
        elif mw.type != "ValueError":
            out.fail(f"auto-group/{case['kind']}/optimizer-wrong-family/raises:{mw.type}", mw.text)
        custom = _M.custom_optimizer(qtype)
        mc = cut(lambda: qcls.from_module(float_mod, weights=qtype, optimizer=custom))
        if isinstance(mc, Raised):
            out.fail(f"auto-group/{case['kind']}/custom-optimizer/raises:{mc.type}", mc.text)
        else:
            from optimum.quanto import quantize_weight as _qw

            want = cut(_qw, float_mod.weight.detach(), qtype, 0, mc.weight_group_size, custom)
            got = cut(lambda: mc.qweight)
            if isinstance(want, Raised) or isinstance(got, Raised) or not torch.equal(got._scale, want._scale):
                out.fail(f"auto-group/{case['kind']}/custom-optimizer-not-used", f"the weights of a {qcls.__name__} created with a user optimizer are not the ones that optimizer gives ({case['qtype']})")
        # "can be quantized to any qtype": the module re-typed by loading a state_dict saved with another weight qtype gets the
        # automatic group size of THAT qtype, and runs
        def fresh(qt):
            if case["kind"] == "linear":
                return QLinear(case["inf"], 3, bias=True, weights=qt)
            return QConv2d(cin, groups * 2, (kh, kw), groups=groups, bias=True, weights=qt)

        for on in ("qint8", "qfloat8_e4m3fn", "qint2" if case["qtype"] == "qint4" else "qint4"):
            oq = O.QTALL[on]
            src = fresh(oq)
            tgt = fresh(qtype)
            r = cut(tgt.load_state_dict, src.state_dict())
            tag = f"auto-group/{case['kind']}/retyped-by-load"
            if isinstance(r, Raised):
                out.fail(f"{tag}/raises:{r.type}", f"{case['qtype']} module loading a {on} state_dict: {r.text}")
                continue
            if tgt.weight_qtype != oq or tgt.weight_group_size != src.weight_group_size:
                out.fail(f"{tag}/group-size", f"{case['qtype']} module after loading a {on} state_dict: qtype {tgt.weight_qtype}, group size {tgt.weight_group_size}, a fresh {on} module has {src.weight_group_size} (per-output count {per})")
                continue
            with torch.no_grad():
                ys, yt = cut(src, x), cut(tgt, x)
            if isinstance(yt, Raised) or isinstance(ys, Raised) or not torch.equal(ys, yt):
                out.fail(f"{tag}/forward", f"{case['qtype']} module after loading a {on} state_dict: {yt if isinstance(yt, Raised) else 'outputs differ from the saved module'}")
            # ... and the module re-typed by quantizing an already quantized (and frozen) model AGAIN with the other qtype: the new
            # configuration is honoured by what the module computes with, not only by what it declares
            from optimum.quanto import freeze as _freeze, quantize as _quantize

            model2 = torch.nn.Sequential(fresh(qtype))
            r = cut(lambda: (_freeze(model2), _quantize(model2, weights=oq)))
            tag = f"auto-group/{case['kind']}/requantized-after-freeze"
            if isinstance(r, Raised):
                out.fail(f"{tag}/raises:{r.type}", f"{case['qtype']} frozen module quantized again to {on}: {r.text}")
                continue
            m3 = model2[0]
            qw3 = cut(lambda: m3.qweight)
            want_cls = QBytesTensor if oq.bits == 8 else QBitsTensor
            if isinstance(qw3, Raised) or m3.weight_qtype != oq or not isinstance(qw3, want_cls) or qw3.qtype != oq or getattr(qw3, "_group_size", None) != m3.weight_group_size:
                out.fail(f"{tag}/not-honoured", f"{case['qtype']} frozen module quantized again to {on}: declares {m3.weight_qtype} / group {m3.weight_group_size}, computes with {type(qw3).__name__} {getattr(qw3, 'qtype', None)} group {getattr(qw3, '_group_size', None)}")
    return out


def group_grid(max_inf):
    for inf in range(1, max_inf + 1):
        yield {"kind": "linear", "qtype": "qint4" if inf % 2 else "qint2", "inf": inf, "run": inf % 97 == 0 or inf in (1, 31, 32, 33, 127, 128, 129, 160, 192, 224, 255, 256, 257)}
    for cin in range(1, 65):
        for groups in [d for d in range(1, cin + 1) if cin % d == 0][:6]:
            for kh in range(1, 8):
                for kw in (1, kh, 7):
                    yield {"kind": "conv", "qtype": "qint4", "cin": cin, "groups": groups, "kh": kh, "kw": kw, "run": (cin * kh + kw) % 53 == 0}


def _stratified(ctx, items, every):
    items = list(items)
    if every <= 1:
        return items[ctx.shard :: ctx.nshards], True
    off = ctx.seed % every
    sel = items[off::every]
    return sel[ctx.shard :: ctx.nshards], False


def run_weight(ctx):
    every = ctx.params.get("every", 1)
    items = list(weight_grid())
    if every > 1:
        # every configuration the property does not list as unsupported is always run; the (much larger) rest is sampled
        keep = [c for c in items if must_reject_weight(c["shape"], O.QTALL[c["qtype"]], c["axis"], c["group_size"], c["optimizer"]) is None]
        rest = [c for c in items if must_reject_weight(c["shape"], O.QTALL[c["qtype"]], c["axis"], c["group_size"], c["optimizer"]) is not None]
        items = keep + rest[ctx.seed % every :: every]
    mine, full = items[ctx.shard :: ctx.nshards], every <= 1
    enumerate_cases(ctx, mine, exec_weight, exhaustive_name="quantize_weight: 6 qtypes x axis in {None,-2..2} x group_size in {None,1..2*numel} x 4 optimizer families x 14 shapes" if full else None)


def run_quantizers(ctx):
    items = list(symmetric_grid())
    enumerate_cases(ctx, items[ctx.shard :: ctx.nshards], exec_symmetric)
    items = list(optimizer_grid())
    enumerate_cases(ctx, items[ctx.shard :: ctx.nshards], exec_optimizer)
    items = list(affine_grid())
    enumerate_cases(ctx, items[ctx.shard :: ctx.nshards], exec_affine, exhaustive_name="quantize_activation / SymmetricQuantizer (8-bit qtypes x axis x 9 scale shapes x 9 shapes) and AffineQuantizer (6 qtypes x axis x 11 group sizes x 4 scale shapes x 7 shapes)")


def run_group(ctx):
    items = list(group_grid(ctx.params.get("max_inf", 8192)))
    enumerate_cases(ctx, items[ctx.shard :: ctx.nshards], exec_group, exhaustive_name=f"automatic group size: every in_features 1..{ctx.params.get('max_inf', 8192)} (QLinear) and Conv2d channels 1-64 x groups x kernels 1..7")


def exec_any(case):
    if "opt" in case:
        return exec_optimizer(case)
    if "entry" in case:
        return exec_symmetric(case)
    if "scale" in case:
        return exec_affine(case)
    return exec_weight(case)


SUBCHECKS = {
    "weight": {"run": run_weight, "execute": exec_weight},
    "quantizers": {"run": run_quantizers, "execute": exec_any},
    "group": {"run": run_group, "execute": exec_group},
}
