"""C16 — finite tensors never quantize to NaN/Inf whatever their range; zero-weight layers return their bias."""
import torch
from hypothesis import strategies as st

from vlib import gen
from vlib import oracle as O
from vlib.core import Outcome, Raised, cut, drive

from checks import c02_affine
from checks import common_rows as R

from optimum.quanto import Calibration, QBytesTensor, QTensor, absmax_scale, quantize, quantize_activation, quantize_weight
from optimum.quanto.nn import QModuleMixin

ACT = {"none": None, "qint8": O.QT8["qint8"], "qfloat8_e4m3fn": O.QT8["qfloat8_e4m3fn"], "qfloat8_e5m2": O.QT8["qfloat8_e5m2"]}


def row_key(vals, dtype, qtype=None):
    a = float(vals.abs().max())
    # the top element of a float8 row sits at code 127 of the weight optimizer, which rounds up to the float8 grid
    # point 128: scale * code may exceed the row's absmax by 128/127
    margin = 128.0 / 127.0 if (qtype is not None and qtype.is_floating_point) else 1.0
    if a * margin * (1 + 4 * gen.U[dtype]) > gen.FMAX[dtype]:
        return "range-reaches-dtype-max"
    if a == 0:
        return "zero-row"
    if float(vals.min()) == float(vals.max()):
        return "constant-row"
    if a < gen.MINNORMAL[dtype] * 128:
        return "tiny-row"
    return "ordinary-row"


# ----------------------------------------------------------------------------- (a) weights

def exec_weights(case):
    qtype = O.QTALL[case["qtype"]]
    if qtype.bits < 8:
        out = c02_affine.exec_affine(case, tagroot="weights")
        # exec_affine's bound already rejects non-finite values (NaN/Inf never satisfy err <= bound)
        x, gid, ng, names = R.build(case)
        q = cut(quantize_weight, x, qtype, case["axis"], case["group_size"])
        if not isinstance(q, Raised):
            d = cut(q.dequantize)
            if not isinstance(d, Raised) and tuple(d.shape) == tuple(x.shape):
                zero_groups = [g for g in range(ng) if not bool((x[gid == g] != 0).any())]
                for g in zero_groups[:4]:
                    if bool((d[gid == g] != 0).any()) and bool(torch.isfinite(d[gid == g]).all()):
                        out.fail("weights/zero-group-not-zero", f"all-zero group dequantizes to {d[gid == g].reshape(-1)[:3].tolist()}")
                        break
        degenerate = {"zeros", "const", "offset", "single", "subnormal", "nearmax", "tiny", "pos", "neg"}
        out.nontrivial = any(n in degenerate for n in names) and any(n not in degenerate for n in names)
        out.klass = list(out.klass or []) + [case["qtype"]]
        return out
    out = Outcome()
    dtype = gen.DT[case["dtype"]]
    x, gid, ng, names = R.build(dict(case, group_size=None))
    axis = case["axis"]
    degenerate = {"zeros", "const", "offset", "single", "subnormal", "nearmax", "tiny", "pos", "neg"}
    out.nontrivial = any(n in degenerate for n in names) and any(n not in degenerate for n in names)
    out.klass = [f"group-{n}" for n in set(names)] + [case["qtype"], case["dtype"], f"axis{axis}"]
    out.fingerprint = [case["dtype"], case["qtype"], axis, case["shape"], names[:8]]
    if x.ndim == 1:
        out.discard = True  # 8-bit per-axis quantization of a vector is a documented rejection
        return out
    q = cut(quantize_weight, x, qtype, axis)
    if isinstance(q, Raised):
        return out.fail(f"weights/{qtype.name}/raises:{q.type}", q.text)
    d = cut(q.dequantize)
    if isinstance(d, Raised):
        return out.fail(f"weights/{qtype.name}/dequantize-raises:{d.type}", d.text)
    if tuple(d.shape) != tuple(x.shape):
        return out.fail("weights/form", f"{tuple(d.shape)}")
    eff_axis = None if x.shape[axis] == 1 else axis
    if eff_axis is None:
        gid, ng = torch.zeros(x.shape, dtype=torch.int64), 1
    fin = torch.isfinite(d) & torch.isfinite(O.codes64(q))
    clean = torch.ones(ng, dtype=torch.bool)
    if not bool(fin.all()):
        seen = set()
        for g in torch.unique(gid[~fin]).tolist():
            clean[g] = False
            k = row_key(x[gid == g].to(torch.float64), dtype, qtype)
            if k not in seen:
                seen.add(k)
                i = int(torch.nonzero((~fin & (gid == g)).reshape(-1))[0])
                out.fail(f"weights/nonfinite/{k}", f"{qtype.name} {case['dtype']}: element {x.reshape(-1)[i].item()!r} of a {k} dequantizes to {d.reshape(-1)[i].item()!r} (row absmax {float(x[gid == g].abs().max())!r})")
    # all-zero rows are exactly zero
    for g in range(min(ng, 64)):
        m = gid == g
        if clean[g] and not bool((x[m] != 0).any()) and bool((d[m] != 0).any()):
            out.fail("weights/zero-row-not-zero", f"all-zero row dequantizes to {d[m].reshape(-1)[:3].tolist()}")
            break
    # the C01 bounds still hold on every row that is finite (rows at the dtype's maximum are the known finding)
    if bool(clean.all()):
        O.check_N(out, f"weights/{qtype.name}", x, q._scale, q, qtype, idem=False)
        # and no element saturates by more than rounding (C03's clause, with the type's full grid)
        G = O.grid(qtype)
        s = q._scale.to(torch.float64)
        s = s.expand(x.shape) if s.ndim else s
        u, eta = gen.U[dtype], gen.ETA[dtype]
        sat = x.to(torch.float64).abs() > s * float(G[-1]) * (1 + 4 * u) + float(G[-1]) * eta
        if bool(sat.any()):
            out.fail(f"weights/{qtype.name}/saturates", "default optimizer scale saturates an element of the tensor it was computed from")
    return out


# ----------------------------------------------------------------------------- (b) layers with degenerate weights

@st.composite
def layer_cases(draw):
    kind = draw(st.sampled_from(["linear", "linear", "conv"]))
    c = {
        "kind": kind,
        "dtype": draw(gen.dtypes),
        "wq": draw(st.sampled_from(sorted(O.QTALL))),
        "aq": draw(st.sampled_from(sorted(ACT))),
        "bias": draw(st.booleans()),
        "pattern": draw(st.sampled_from(["zeros", "zeros", "zero-rows", "const", "single-row", "zero-cols", "pooling"])),
        "seed": draw(st.integers(0, 2**20)),
        "out": draw(st.integers(1, 9)),
        "oscale": draw(st.sampled_from([1.0, 1.0, 0.05, 3.0])),
        "batch": draw(st.lists(st.integers(1, 5), min_size=1, max_size=2)),
        # how the weights became what they are: as built, or written in place into the already quantized module AFTER it has
        # run (pruning / loading between two inferences); and whether the module was put in evaluation mode
        "late": draw(st.sampled_from([0, 0, 1, 2])),
        "eval": draw(st.booleans()),
    }
    if kind == "linear":
        c["inf"] = draw(st.sampled_from([1, 3, 7, 8, 16, 32, 33, 48, 64, 160, 256]))
        if c["pattern"] == "pooling":
            c["inf"] = draw(st.sampled_from([512, 1024, 2048]))  # an averaging layer over many one-sided inputs
    else:
        c["inf"] = draw(st.integers(1, 6))
        c["k"] = draw(st.integers(1, 3))
        c["hw"] = draw(st.integers(3, 6))
    return c


def make_layer(case):
    dtype = gen.DT[case["dtype"]]
    g = torch.Generator().manual_seed(case["seed"])
    if case["kind"] == "linear":
        m = torch.nn.Linear(case["inf"], case["out"], bias=case["bias"])
        x = torch.randn(*case["batch"], case["inf"], generator=g)
    else:
        m = torch.nn.Conv2d(case["inf"], case["out"], case["k"], bias=case["bias"])
        x = torch.randn(case["batch"][0], case["inf"], case["hw"], case["hw"], generator=g)
    w = torch.randn(m.weight.shape, generator=g)
    p = case["pattern"]
    if p == "zeros":
        w.zero_()
    elif p == "zero-rows":
        w[:: 2] = 0
    elif p == "const":
        w.fill_(0.37)
    elif p == "single-row":
        w[1:] = 0
    elif p == "zero-cols":
        w[:, ::2] = 0
    elif p == "pooling":
        # constant rows 1/n (codes all at the end of the grid) on post-ReLU-like inputs: outputs of order one, while the sum of
        # input x code products is tens of thousands
        w = torch.full(w.shape, 1.0 / max(1, w[0].numel()))
        w[::2] *= -1
        x = x.abs() * 3 + 1
    late = None
    if case.get("late") and p != "pooling":
        late, w = w, torch.randn(w.shape, generator=g)
    with torch.no_grad():
        m.weight.copy_(w)
        if case["bias"]:
            m.bias.copy_(torch.randn(m.bias.shape, generator=g))
    model = torch.nn.Sequential(m).to(dtype)
    model.late_weight = None if late is None else late.to(dtype)
    return model, x.to(dtype)


def exec_layer(case):
    from checks import models as M

    with M.repeatable_kernels(case["kind"] == "conv"):
        return _exec_layer(case)


def _exec_layer(case):
    out = Outcome()
    aq = ACT[case["aq"]]
    wq = O.QTALL[case["wq"]]
    model, x = make_layer(case)
    tag = f"layer/{case['kind']}"
    out.klass = [case["kind"], case["pattern"], case["wq"], f"act-{case['aq']}", case["dtype"]]
    out.fingerprint = [case[k] for k in ("kind", "dtype", "wq", "aq", "bias", "pattern", "inf", "out")] + [case.get("late", 0), case.get("eval", False)]
    out.nontrivial = case["pattern"] != "zeros" or case["aq"] != "none" or case["bias"]
    bias = model[0].bias.detach().clone() if case["bias"] else None
    r = cut(quantize, model, weights=wq, activations=aq)
    if isinstance(r, Raised):
        return out.fail(f"{tag}/quantize-raises:{r.type}", r.text)
    qm = model[0]
    if aq is not None:
        qm.output_scale = torch.tensor(case["oscale"], dtype=qm.output_scale.dtype)
    if case.get("eval"):
        model.eval()
    if model.late_weight is not None:
        with torch.no_grad():
            y = cut(model, x)
            if isinstance(y, Raised):
                return out.fail(f"{tag}/forward-raises:{y.type}", y.text)
            if case["late"] == 1:
                qm.weight.copy_(model.late_weight)
            else:
                qm.weight.data = model.late_weight.clone()
        out.klass.append("weights-written-after-first-forward")
    with torch.no_grad():
        y = cut(model, x)
    if isinstance(y, Raised):
        return out.fail(f"{tag}/forward-raises:{y.type}", y.text)
    yd = y.dequantize() if isinstance(y, QTensor) else y
    w0 = qm.weight.detach()
    zr = "has-zero-row" if bool((w0.reshape(w0.shape[0], -1).abs().amax(1) == 0).any()) else "no-zero-row"
    qw = cut(lambda: qm.qweight.dequantize())
    if isinstance(qw, Raised) or not bool(torch.isfinite(qw).all()):
        out.fail(f"layer/nonfinite-weight/{zr}", f"{case['kind']} {case['wq']} {case['dtype']}: quantized weight of pattern {case['pattern']} is not finite")
        return out
    if not bool(torch.isfinite(yd).all()):
        out.fail(f"layer/nonfinite-output/{zr}", f"{case['kind']} weights {case['wq']} pattern {case['pattern']} act {case['aq']} {case['dtype']}: output has NaN/Inf")
        return out
    if case["pattern"] == "zeros":
        # a layer whose weights are all zero outputs exactly its bias
        if case["kind"] == "linear":
            want = torch.zeros(*x.shape[:-1], case["out"], dtype=x.dtype)
            if bias is not None:
                want = want + bias
        else:
            want = torch.zeros(yd.shape, dtype=x.dtype)
            if bias is not None:
                want = want + bias.reshape(1, -1, 1, 1)
        if aq is not None:
            if not isinstance(y, QBytesTensor):
                out.fail(f"{tag}/zero-weights/not-quantized", f"output is {type(y).__name__}")
                return out
            wantq = quantize_activation(want, aq, qm.output_scale.to(want.dtype))
            if not torch.equal(O.codes64(y), O.codes64(wantq)):
                out.fail(f"{tag}/zero-weights/not-bias", "zero-weight layer with quantized activations does not output the projection of its bias")
        elif not torch.equal(yd, want):
            i = int(torch.nonzero((yd != want).reshape(-1))[0])
            out.fail(f"{tag}/zero-weights/not-bias", f"zero-weight layer outputs {yd.reshape(-1)[i].item()!r} where the bias is {want.reshape(-1)[i].item()!r}")
    return out


# ----------------------------------------------------------------------------- (c) calibration on degenerate batches

@st.composite
def calib_cases(draw):
    return {
        "dtype": draw(gen.dtypes),
        "aq": draw(st.sampled_from(["qint8", "qfloat8_e4m3fn", "qfloat8_e5m2"])),
        "wq": draw(st.sampled_from(["qint8", "qfloat8_e4m3fn", "qint4"])),
        "batches": draw(st.lists(st.sampled_from(["zeros", "const", "tiny", "huge", "normal", "single", "small", "offset"]), min_size=1, max_size=3)),
        "model": draw(st.sampled_from(["linear", "mlp", "mlp-inplace", "mlp-inplace", "ln-linear", "linear-ln"])),
        # the batches reach the model as float tensors, or already quantized by an upstream stage with ANOTHER 8-bit qtype
        "qin": draw(st.sampled_from([None, None, "other"])),
        "seed": draw(st.integers(0, 2**20)),
        "inf": draw(st.sampled_from([5, 8, 16, 32])),
        "no_grad": draw(st.booleans()),
    }


def batch_of(kind, shape, dtype, g):
    r = torch.randn(shape, generator=g, dtype=torch.float64)
    if kind == "zeros":
        v = torch.zeros(shape, dtype=torch.float64)
    elif kind == "const":
        v = torch.full(shape, 0.25, dtype=torch.float64)
    elif kind == "tiny":
        v = r * gen.MINNORMAL[dtype] * 4
    elif kind == "huge":
        v = r * gen.FMAX[dtype] * 1e-3
    elif kind == "small":
        v = r * 0.01  # ordinary values of small magnitude (comparable to the sqrt(eps) of a normalisation)
    elif kind == "offset":
        v = 1.0 + 0.01 * r  # rows confined near a constant
    elif kind == "single":
        v = torch.zeros(shape, dtype=torch.float64)
        v.reshape(-1)[0] = 3.0
    else:
        v = r
    return gen.clamp_finite(v, dtype)


def exec_calib(case):
    import copy

    out = Outcome()
    dtype = gen.DT[case["dtype"]]
    g = torch.Generator().manual_seed(case["seed"])
    n = case["inf"]
    if case["model"] == "linear":
        model = torch.nn.Sequential(torch.nn.Linear(n, 6))
    elif case["model"] == "mlp":
        model = torch.nn.Sequential(torch.nn.Linear(n, 8), torch.nn.ReLU(), torch.nn.Linear(8, 4))
    elif case["model"] == "mlp-inplace":
        # activation functions applied IN PLACE on the (quantized) output of the first layer, as torchvision-style models do
        act = [torch.nn.ReLU(inplace=True), torch.nn.ReLU6(inplace=True), torch.nn.Hardtanh(inplace=True)][case["seed"] % 3]
        model = torch.nn.Sequential(torch.nn.Linear(n, 8, bias=bool(case["seed"] % 2)), act, torch.nn.Linear(8, 4))
    elif case["model"] == "linear-ln":
        # a projection without bias feeding a normalisation: the LayerNorm receives a quantized tensor
        model = torch.nn.Sequential(torch.nn.Linear(n, 8, bias=False), torch.nn.LayerNorm(8))
    else:
        model = torch.nn.Sequential(torch.nn.LayerNorm(n), torch.nn.Linear(n, 6))
    with torch.no_grad():
        for p in model.parameters():
            p.copy_(torch.randn(p.shape, generator=g) * 0.3)
    model = model.to(dtype)
    aq, wq = ACT[case["aq"]], O.QTALL[case["wq"]]
    tag = "calib"
    out.klass = [f"batch-{b}" for b in set(case["batches"])] + [case["aq"], case["dtype"], case["model"]]
    out.fingerprint = [case["dtype"], case["aq"], case["wq"], case["batches"], case["model"]]
    out.nontrivial = any(b != "normal" for b in case["batches"])
    twin = copy.deepcopy(model)
    r = cut(quantize, model, weights=wq, activations=aq)
    if isinstance(r, Raised):
        return out.fail(f"{tag}/quantize-raises:{r.type}", r.text)
    batches = [batch_of(b, (3, n), dtype, g) for b in case["batches"]]
    probe = batch_of("normal", (3, n), dtype, g)
    qin = None
    if case.get("qin") and aq is not None and case["model"] != "ln-linear":
        names8 = sorted(O.QT8)
        qin = O.QT8[names8[(names8.index(aq.name) + 1 + case["seed"] % 2) % 3]]
        out.klass.append("quantized-input-of-another-qtype")

    def feed(b):
        if qin is None:
            return b
        s_ = absmax_scale(b, qin)
        return quantize_activation(b, qin, torch.where(s_ > 0, s_, torch.ones_like(s_)))
    with torch.no_grad():
        if not all(bool(torch.isfinite(twin(b)).all()) for b in batches + [probe]):
            out.discard = True  # the float model itself overflows on this batch: not a statement about quantization
            return out

    def go():
        with Calibration(streamline=False):
            for b in batches:
                model(feed(b))

    if case["no_grad"]:
        with torch.no_grad():
            r = cut(go)
    else:
        r = cut(go)
    if isinstance(r, Raised):
        return out.fail(f"{tag}/calibration-raises:{r.type}", r.text)
    for name, m in model.named_modules():
        for sn in ("input_scale", "output_scale"):
            s = getattr(m, sn, None)
            if s is not None and not (bool(torch.isfinite(s).all()) and bool((s > 0).all())):
                v = "nan" if bool(torch.isnan(s).any()) else ("inf" if bool(torch.isinf(s).any()) else "non-positive")
                out.fail(f"{tag}/{sn}-{v}/{'all-degenerate' if 'normal' not in case['batches'] else 'mixed'}-batches",
                         f"{name}.{sn} = {s.item()!r} after calibrating on batches {case['batches']} ({case['aq']}, weights {case['wq']}, {case['dtype']})")
                return out
    if len(batches) == 1:
        # calibrated on ONE batch, a fresh model run on that very batch: every module sees the input it was calibrated on, so the
        # range each output scale covers contains the module's own raw (pre-quantization) output -- nothing saturates, the error of
        # every quantized activation obeys the bound of C01 (half a step inside the range)
        raws, outs, undo, ins, xins, youts = {}, {}, [], {}, {}, {}
        for name, m in model.named_modules():
            if isinstance(m, QModuleMixin) and m.activation_qtype is not None:
                def wrap(orig, name=name):
                    def qforward(inp):
                        if isinstance(inp, QBytesTensor):
                            ins[name] = inp  # the input the module computes with (requantized when it came with another qtype)
                        xins[name] = inp.dequantize().detach().clone() if isinstance(inp, QTensor) else inp.detach().clone()
                        r_ = orig(inp)
                        raws[name] = r_.dequantize().detach().clone() if isinstance(r_, QTensor) else r_.detach().clone()
                        return r_
                    return qforward
                m.qforward = wrap(m.qforward)
                undo.append(m)
                def seen_output(mod, i_, o_, name=name):
                    outs[name] = o_._scale.detach().clone() if isinstance(o_, QBytesTensor) else None
                    youts[name] = o_.detach().clone() if isinstance(o_, QBytesTensor) else o_  # (user code may update it in place afterwards)

                undo.append(m.register_forward_hook(seen_output))
        with torch.no_grad():
            y = cut(lambda: model(feed(batches[0])))
        for h in undo:
            if isinstance(h, torch.nn.Module):
                del h.qforward
            else:
                h.remove()
        if isinstance(y, Raised):
            return out.fail(f"{tag}/inference-raises:{y.type}", y.text)
        G = float(O.grid(aq)[-1])
        u, eta = gen.U[dtype], gen.ETA[dtype]
        for name, raw in raws.items():
            sc = outs.get(name)
            if sc is None or sc.numel() != 1 or not bool(torch.isfinite(raw).all()):
                continue
            so, top = float(sc.to(torch.float64)), float(raw.to(torch.float64).abs().max())
            if top > so * G * (1 + 4 * u) + G * eta:
                out.fail(f"{tag}/calibration-batch-saturates", f"module {name}: on the very batch it was calibrated on ({case['batches'][0]}), its raw output reaches {top:.6g} but the calibrated range is "
                                                               f"output_scale * {G:g} = {so * G:.6g} ({case['aq']}, {case['dtype']}, {case['model']})")
                break
        if not out.failures:
            # ... and every quantized activation is the grid point nearest to what the float module gives on the (de)quantized input
            # the module received -- an INDEPENDENT float64 evaluation with the dequantized weights (C01's bound, widened by the
            # accumulation error of the module's own arithmetic)
            from checks.c12_calib import raw64

            Gq = O.grid(aq)
            mods_ = dict(model.named_modules())
            for name, yq in youts.items():
                if not isinstance(yq, QBytesTensor) or name not in xins or yq._scale.numel() != 1:
                    continue
                x_in = xins[name]
                if name not in ins and not isinstance(mods_[name], torch.nn.LayerNorm):
                    # (a float input is quantized by the module itself, with its input scale, before the product)
                    x_in = quantize_activation(x_in, aq, mods_[name].input_scale.detach()).dequantize()
                # (only where the module's own arithmetic is in the normal range: a product of two scales below the smallest normal
                # float32 number keeps a bit or two, whatever the dtype of the model -- the tiny-range family of D04)
                qw_ = getattr(mods_[name], "qweight", None)
                s_in_ = float(mods_[name].input_scale.detach().to(torch.float64))
                w_min_ = float(qw_._scale.detach().to(torch.float64).abs().min()) if isinstance(qw_, QTensor) else 1.0
                if s_in_ * w_min_ < 1.2e-38 * 1024 or float(yq._scale.to(torch.float64)) < gen.MINNORMAL[dtype]:
                    out.klass.append("subnormal-arithmetic-not-judged")
                    continue
                ref, bound = raw64(mods_[name], x_in)
                s_ = float(yq._scale.to(torch.float64))
                if not (s_ > 0) or not bool(torch.isfinite(ref).all()) or not bool(torch.isfinite(bound).all()):
                    continue
                qq = ref / s_
                dist, _, _ = O.nearest_dist(qq, Gq)
                inside = (qq > Gq[0]) & (qq < Gq[-1])
                # the module's own raw output r' differs from the reference r by at most `bound`; its code is the point nearest to
                # r'/s, and the distance to the grid is 1-Lipschitz: |code - r/s| <= dist(r/s) + 2 bound/s + the division's rounding
                tol = 2 * bound / s_ + 2 * (qq.abs() * u + eta)
                err = (O.codes64(yq) - qq).abs()
                bad = inside & (err > dist + tol)
                if bool(bad.any()):
                    i_ = int(torch.nonzero(bad.reshape(-1))[0])
                    out.fail(f"{tag}/activation-not-nearest/{type(mods_[name]).__name__}", f"module {name}: {int(bad.sum())}/{bad.numel()} output codes are not the grid points nearest to the float module's output on the "
                                                                                          f"(de)quantized input, e.g. code {O.codes64(yq).reshape(-1)[i_].item()} for raw/scale {qq.reshape(-1)[i_].item():.6g} "
                                                                                          f"(batch {case['batches'][0]}, {case['aq']}, {case['dtype']}, {case['model']})")
                    break
        if qin is not None and not out.failures:
            # ... and a batch handed over quantized with ANOTHER qtype is requantized by the first module without saturating
            first = next(iter(ins), None)
            src = feed(batches[0]).dequantize().to(torch.float64)
            if first is not None and ins[first].qtype == aq and ins[first]._scale.numel() == 1:
                si = float(ins[first]._scale.to(torch.float64))
                if float(src.abs().max()) > si * G * (1 + 4 * u) + G * eta:
                    out.fail(f"{tag}/calibration-batch-saturates/input-of-another-qtype", f"module {first}: the batch it was calibrated on ({case['batches'][0]}, quantized upstream as {qin.name}) reaches "
                                                                                           f"{float(src.abs().max()):.6g}, its input range is input_scale * {G:g} = {si * G:.6g} ({case['aq']}, {case['dtype']})")
        out.klass.append("single-batch")
    for which, inp in [("probe", probe)] + [(b, x) for b, x in zip(case["batches"], batches)]:
        # inference on an ordinary batch, and on the degenerate batches themselves
        with torch.no_grad():
            y = cut(lambda: model(feed(inp)))
        if isinstance(y, Raised):
            return out.fail(f"{tag}/inference-raises:{y.type}", y.text)
        yd = y.dequantize() if isinstance(y, QTensor) else y
        if not bool(torch.isfinite(yd).all()):
            out.fail(f"{tag}/nonfinite-inference", f"inference on a {which} batch after calibration on {case['batches']} gives NaN/Inf ({case['aq']}, {case['dtype']}, {case['model']})")
            break
    return out


def _run(strategy, execute):
    def run(ctx):
        drive(ctx, strategy, execute, max(1, int(ctx.params["n"] * ctx.params.get("scale", 1))))

    return run


def run_calibgrid(ctx):
    """one calibration batch, then inference on it: every model x activation qtype x dtype x batch kind (the single-batch stage of
    exec_calib judges every module's range and every quantized activation), which random histories reach only now and then"""
    from vlib.core import enumerate_cases

    cs = []
    k = 0
    for model in ["linear", "mlp", "mlp-inplace", "ln-linear", "linear-ln"]:
        for aq in ["qint8", "qfloat8_e4m3fn", "qfloat8_e5m2"]:
            for dt in ["fp32", "fp16", "bf16"]:
                for kind in ["zeros", "const", "tiny", "huge", "normal", "single", "small", "offset"]:
                    k += 1
                    cs.append({"dtype": dt, "aq": aq, "wq": ["qint8", "qfloat8_e4m3fn", "qint4"][k % 3], "batches": [kind], "model": model, "qin": "other" if k % 4 == 0 else None,
                               "seed": ctx.seed * 1000 + k, "inf": [5, 8, 16, 32][k % 4], "no_grad": bool(k % 2)})
    enumerate_cases(ctx, cs[ctx.shard :: ctx.nshards], exec_calib, exhaustive_name=None)


SUBCHECKS = {
    "calibgrid": {"run": run_calibgrid, "execute": exec_calib},
    "weights": {"run": _run(R.row_tensor_cases(degenerate_bias=True, qtypes=sorted(O.QTALL)), exec_weights), "execute": exec_weights},
    "layers": {"run": _run(layer_cases(), exec_layer), "execute": exec_layer},
    "calib": {"run": _run(calib_cases(), exec_calib), "execute": exec_calib},
}
