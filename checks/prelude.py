"""Histories of unrelated, legal library calls executed BEFORE the call a property is about.

A property that quantifies over "every tensor" also holds for the N-th call of a process: nothing an earlier call on another
object leaves behind (module-level caches, records shared between call sites, patched tables) may change the result. The
`order` sub-checks draw a short history from this menu, run it, then run the property's own case — each history in a forked
child (vlib.core.isolated), so that it is judged from a clean library state and shrinks to the calls that matter.
"""
import io

import torch
import torch.nn.functional as F
from hypothesis import strategies as st

from vlib.core import cut

from optimum.quanto import Calibration, absmax_scale, freeze, qfloat8_e4m3fn, qfloat8_e5m2, qint2, qint4, qint8, quantize, quantize_activation, quantize_weight
from optimum.quanto.tensor.qbits.packed import PackedTensor

DT = [torch.float32, torch.float16, torch.bfloat16]
Q8 = [qint8, qfloat8_e4m3fn, qfloat8_e5m2]
QALL = [qint8, qfloat8_e4m3fn, qfloat8_e5m2, qint4, qint2]


def _x(shape, d, k=0):
    g = torch.Generator().manual_seed(1234 + k)
    return (torch.randn(shape, generator=g) * 2).to(DT[d % 3])


def _qa(shape, d, t, k=0):
    x = _x(shape, d, k)
    s = absmax_scale(x, Q8[t % 3])
    return quantize_activation(x, Q8[t % 3], s)


def _tiny(d, t, act):
    torch.manual_seed(5)
    m = torch.nn.Sequential(torch.nn.Linear(8, 8), torch.nn.LayerNorm(8), torch.nn.ReLU(), torch.nn.Linear(8, 4)).to(DT[d % 3])
    quantize(m, weights=QALL[t % 5], activations=Q8[t % 3] if act else None)
    return m


def op_neg(d, t):
    return -_qa((3, 4), d, t)


def op_relu(d, t):
    return torch.relu(_qa((3, 4), d, t))


def op_mul(d, t):
    return _qa((3, 4), d, t) * 0.5


def op_div(d, t):
    return _qa((3, 4), d, t) / 3.0


def op_softmax(d, t):
    return torch.softmax(_qa((3, 4), d, t), dim=-1)


def op_cat(d, t):
    q = _qa((3, 4), d, t)
    return torch.cat([q, q], dim=0)


def op_to_dtype(d, t):
    return _qa((3, 4), d, t).to(DT[(d + 1) % 3])


def op_dequantize(d, t):
    return _qa((3, 4), d, t).dequantize()


def op_qweight(d, t):
    qt = QALL[t % 5]
    return quantize_weight(_x((4, 8), d), qt, [0, -1][t % 2], 4 if qt.bits < 8 and t % 3 == 0 else None)


def op_qweight_dequantize(d, t):
    return op_qweight(d, t).dequantize()


def op_linear(d, t):
    return F.linear(_qa((3, 8), d, t), quantize_weight(_x((4, 8), d, 1), QALL[t % 5], 0))


def op_linear_float(d, t):
    return F.linear(_x((3, 16), d), quantize_weight(_x((4, 16), d, 1), QALL[t % 5], 0))


def op_bmm(d, t):
    a = _qa((2, 3, 4), d, 0)
    b = _qa((2, 4, 5), d, 0, 1)
    return torch.bmm(a, b)


def op_pack(d, t):
    bits = [2, 4][t % 2]
    p = PackedTensor.pack(torch.arange(24, dtype=torch.uint8).reshape(6, 4) % (1 << bits), bits)
    return p.unpack()


def op_model_forward(d, t):
    m = _tiny(d, t, t % 2)
    with torch.no_grad():
        return m(_x((2, 8), d))


def op_calibrate(d, t):
    m = _tiny(d, t, True)
    with torch.no_grad(), Calibration(streamline=bool(t % 2)):
        m(_x((2, 8), d))
    return m


def op_freeze(d, t):
    m = _tiny(d, t, t % 2)
    freeze(m)
    with torch.no_grad():
        return m(_x((2, 8), d))


def op_state_dict(d, t):
    m = _tiny(d, t, t % 2)
    freeze(m)
    b = io.BytesIO()
    torch.save(m.state_dict(), b)
    b.seek(0)
    m2 = _tiny(d, t, t % 2)
    m2.load_state_dict(torch.load(b, weights_only=False))
    return m2


def op_views(d, t):
    q = _qa((3, 4), d, t)
    return q.t().reshape(2, 6)[0:1]


def op_compare(d, t):
    q = _qa((3, 4), d, t)
    return torch.where(q < q.flip(0).dequantize(), q.dequantize(), torch.zeros(()).to(q.dtype))


def op_clone_copy(d, t):
    q = _qa((3, 4), d, t)
    c = q.clone()
    c.copy_(_qa((3, 4), d, t, 1))
    return c


def op_absmax(d, t):
    return absmax_scale(_x((3, 4), d), Q8[t % 3], [None, 0, -1][t % 3])


def op_pad(d, t):
    return F.pad(_qa((2, 3, 4), d, t), (1, 1), value=0.5)


def op_quantize_saturating(d, t):
    x = _x((3, 4), d)
    return quantize_activation(x, Q8[t % 3], (x.abs().max() / 300).to(x.dtype))


OPS = {n[3:]: f for n, f in sorted(globals().items()) if n.startswith("op_") and callable(f)}
NAMES = sorted(OPS)

histories = st.lists(st.tuples(st.sampled_from(NAMES), st.integers(0, 2), st.integers(0, 5)), min_size=0, max_size=4)


def run_history(history):
    """execute the calls; what they return (or raise) is not this check's subject"""
    done = []
    for name, d, t in history:
        r = cut(OPS[name], d, t)
        done.append(name)
        del r
    return done


def make_order(final_strategy, final_exec, describe):
    """(cases strategy, execute) of an `order` sub-check: history from the menu, then the property's own case; the final case's
    failures keep their signatures, the message names the history"""
    from vlib.core import isolated

    @st.composite
    def cases(draw):
        return {"history": [list(h) for h in draw(histories)], "final": draw(final_strategy)}

    def _exec(case):
        done = run_history(case["history"])
        out = final_exec(case["final"])
        # same signatures as the property's own sub-check (a recorded finding stays the recorded finding); the message names the history
        out.failures = [(s, f"{m} [after the history {' -> '.join(done) or '(empty)'}]") for s, m in out.failures]
        out.nontrivial = bool(out.nontrivial) and len(done) > 0
        out.fingerprint = [sorted(set(done)), describe(case["final"])]
        out.klass = [f"pre-{n}" for n in set(done)] + [f"history-len{len(done)}"]
        return out

    def execute(case):
        return isolated(_exec)(case)

    return cases(), execute
