"""C07 — quantized matmul/linear kernels compute scale-corrected products on every path (oracle K)."""
import torch
import torch.nn.functional as F
from hypothesis import strategies as st

from vlib import gen
from vlib import oracle as O
from vlib.core import Outcome, Raised, cut, drive

from optimum.quanto import QBytesTensor, QTensor, absmax_scale, quantize_activation, quantize_weight
from optimum.quanto.library import qbytes_mm as QMM
from optimum.quanto.tensor.quantizers import AffineQuantizer, SymmetricQuantizer

P = {torch.float32: 24, torch.float16: 11, torch.bfloat16: 8}
ACTS = ["float", "qint8", "qfloat8_e4m3fn", "qfloat8_e5m2"]
WQ = ["qint8", "qfloat8_e4m3fn", "qfloat8_e5m2", "qint4", "qint2"]
ROUTES = {}


def _count(name):
    orig = getattr(QMM, name)

    def shim(*a, **k):
        ROUTES[name] = ROUTES.get(name, 0) + 1
        return orig(*a, **k)

    shim.__wrapped__ = orig
    setattr(QMM, name, shim)
    return orig


ORIG = {n: _count(n) for n in ("qbytes_mm", "qbytes_int_mm", "qbytes_int8pack_mm")}

FEATS = [1, 2, 3, 4, 5, 7, 8, 9, 12, 15, 16, 17, 20, 24, 31, 32, 33, 40, 48, 50, 63, 64, 65, 96, 100, 128, 160, 192, 224, 256, 288, 384, 500, 512]


@st.composite
def cases(draw):
    rows = draw(st.one_of(st.integers(1, 24), st.sampled_from([15, 16, 17, 23, 24, 25, 31, 32, 33, 40, 48, 56, 63, 64])))
    brank = draw(st.integers(0, 3))
    if brank == 0:
        rows = 1
    return {
        "dtype": draw(gen.dtypes),
        "act": draw(st.sampled_from(ACTS)),
        "wq": draw(st.sampled_from(WQ)),
        "rows": rows,
        "brank": brank,
        "inf": draw(st.sampled_from(FEATS)),
        "outf": draw(st.sampled_from(FEATS[:24])),
        "bias": draw(st.booleans()),
        "mode": draw(st.sampled_from(["exact", "real"])),
        "entry": draw(st.sampled_from(["linear", "linear", "linear", "matmul", "mm", "mm_other_axis0", "bmm", "op", "routes"])),
        "layout": draw(st.sampled_from(["contig", "contig", "transposed", "sliced", "expanded", "offset"])),
        "ascale": draw(st.sampled_from(["absmax", "saturating", "drawn"])),
        "group": draw(st.integers(0, 3)),
        "per_tensor_w": draw(st.integers(0, 5)) == 0,
        "act_axis": draw(st.sampled_from([None, None, None, None, 0, -1])),  # quantized activations may also be per-axis
        "wlayout": draw(st.sampled_from(["contig", "contig", "colmajor", "expanded", "tied"])),
        "sign": draw(st.sampled_from(["mixed", "mixed", "one-sided"])),
        "w_axis": draw(st.sampled_from([0, 0, 0, -1])),  # 8-bit weights quantized along the input features (real mode)
        "seed": draw(st.integers(0, 2**20)),
        # float activations held in a Parameter (learned prompt / query tokens fed to a projection) are float activations
        "xwrap": draw(st.sampled_from(["tensor", "tensor", "tensor", "parameter"])),
    }


def batch_shape(rows, brank):
    if brank == 0:
        return []  # a single vector of activations (rows is 1)
    if brank == 1:
        return [rows]
    f = [d for d in range(1, rows + 1) if rows % d == 0]
    a = f[len(f) // 2]
    if brank == 2:
        return [a, rows // a]
    g = [d for d in range(1, a + 1) if a % d == 0]
    b = g[len(g) // 2]
    return [b, a // b, rows // a]


def sparse_codes(shape, nnz, lo, hi, g):
    t = torch.zeros(shape, dtype=torch.float64)
    rows = t.reshape(-1, shape[-1])
    K = shape[-1]
    for r in rows:
        k = min(K, nnz)
        idx = torch.randperm(K, generator=g)[:k]
        r[idx] = torch.randint(lo, hi + 1, (k,), generator=g).double()
    return t


def lay_out(x, layout):
    """same values, different strides in the batch dims"""
    if layout == "transposed" and x.ndim >= 3:
        return x.transpose(0, 1).contiguous().transpose(0, 1)
    if layout == "transposed" and x.ndim == 2:
        return x.t().contiguous().t()
    if layout == "expanded":
        # every leading index holds the same data (stride 0): the row stride is smaller than in_features
        return x[:1].expand(x.shape)
    if layout == "sliced":
        big = torch.zeros((x.shape[0] * 2,) + tuple(x.shape[1:]), dtype=x.dtype)
        big[::2] = x
        return big[::2]
    if layout == "offset":
        # a CONTIGUOUS tensor that starts a few elements into a larger buffer: its address is not aligned on 16/32/64 bytes
        off = [1, 2, 4, 8][x.numel() % 4]
        buf = torch.zeros(x.numel() + off, dtype=x.dtype)
        buf[off:] = x.reshape(-1)
        return buf[off:].view(x.shape)
    return x


def quantize_laid_out(xc, aq, scale, layout):
    """quantize contiguous values, then give the PAYLOAD the requested strides through quanto's own transparent view ops
    (quantizing a strided tensor yields a contiguous payload, so the layout must be applied afterwards)"""
    if layout == "transposed" and xc.ndim >= 2:
        q = SymmetricQuantizer.apply(xc.transpose(0, 1).contiguous(), aq, None, scale)
        return q.transpose(0, 1)
    if layout == "sliced":
        big = torch.zeros((xc.shape[0] * 2,) + tuple(xc.shape[1:]), dtype=xc.dtype)
        big[::2] = xc
        return SymmetricQuantizer.apply(big, aq, None, scale)[::2]
    if layout == "expanded":
        q = SymmetricQuantizer.apply(xc[:1].contiguous(), aq, None, scale)
        return q.expand(xc.shape)
    return SymmetricQuantizer.apply(xc, aq, None, scale)


def wsrc(wfloat, case):
    """the float weights in the memory layout the checkpoint happens to have: row-major, or column-major (a transposed
    Conv1D-style matrix: the quantized payload inherits that layout)"""
    return wfloat.t().contiguous().t() if case.get("wlayout") == "colmajor" else wfloat


def wexpand(w, case):
    """one quantized row shared by every output feature (an expanded Tensor: rows overlap in memory)"""
    if case.get("wlayout") == "expanded" and isinstance(w, QBytesTensor) and w.axis is None and w.shape[0] > 1:
        return w[:1].expand(w.shape)
    return w


def build(case):
    """-> activations (float or QBytesTensor), quantized weight, bias or None"""
    x, w, b = _build(case)
    if case.get("xwrap") == "parameter" and not isinstance(x, QTensor):
        x = torch.nn.Parameter(x, requires_grad=bool(case["seed"] % 2))
    return x, w, b


def _build(case):
    dtype = gen.DT[case["dtype"]]
    g = torch.Generator().manual_seed(case["seed"])
    K, N = case["inf"], case["outf"]
    bshape = batch_shape(case["rows"], case["brank"])
    wqt = O.QTALL[case["wq"]]
    aq = None if case["act"] == "float" else O.QT8[case["act"]]
    p = P[dtype]
    if case["mode"] == "exact":
        nnz = max(1, min(K, (2**p) // (32 if case.get("act_axis") is None else 128)))  # per-axis activation scales go up to 4x
        xs, ws = 2.0**-3, 2.0**-2
        xc = sparse_codes(bshape + [K], nnz, -2, 2, g)
        if case["layout"] == "expanded":
            xc = xc[:1].expand(xc.shape).contiguous()
        ax = case.get("act_axis")
        if aq is not None and ax is not None and xc.ndim >= 2 and xc.shape[ax] > 1:
            # per-axis quantized activations: a different power-of-two scale per index of the first / last axis
            sshape = [1] * xc.ndim
            sshape[ax] = xc.shape[ax]
            sc = (xs * 2.0 ** torch.arange(xc.shape[ax]).remainder(3)).reshape(sshape)
            x = SymmetricQuantizer.apply((xc * sc).to(dtype), aq, ax, sc.to(dtype))
        elif aq is not None:
            x = quantize_laid_out((xc * xs).to(dtype), aq, torch.tensor(xs, dtype=dtype), case["layout"])
        else:
            x = lay_out((xc * xs).to(dtype), case["layout"])
        if wqt.bits == 8:
            wc = sparse_codes([N, K], K, -2, 2, g)
            rs = (2.0 ** torch.arange(N).remainder(3)).reshape(N, 1)
            if case["per_tensor_w"] or N == 1 or case["entry"] == "bmm":
                w = wexpand(SymmetricQuantizer.apply(wsrc((wc * ws).to(dtype), case), wqt, None, torch.tensor(ws, dtype=dtype)), case)
            else:
                w = SymmetricQuantizer.apply(wsrc((wc * ws * rs).to(dtype), case), wqt, 0, (ws * rs).to(dtype))
        else:
            top = 2**wqt.bits - 1
            wc = sparse_codes([N, K], K, 0, min(top, 2), g)
            zp = torch.ones((N, 1), dtype=torch.int8)
            rs = (2.0 ** torch.arange(N).remainder(3)).reshape(N, 1)
            sc = (ws * rs).to(dtype)
            w = AffineQuantizer.apply(((wc - 1) * ws * rs).to(dtype), wqt, 0, None, sc, zp)
        b = None
        if case["bias"]:
            b = (torch.randint(-3, 4, (N,), generator=g).double() * xs * ws).to(dtype)
        return x, w, b
    # realistic magnitudes
    mag = [1.0, 1.0, 0.05, 20.0][case["seed"] % 4]
    xr = torch.randn(bshape + [K], generator=g, dtype=torch.float64)
    coherent = case.get("sign") == "one-sided"
    if coherent:
        xr = xr.abs()  # post-ReLU-like activations: the unscaled sum of codes grows like K, not like sqrt(K)
    x = gen.clamp_finite(xr * mag, dtype)
    if case["layout"] == "expanded":
        x = x[:1].expand(x.shape).contiguous()
    if aq is not None:
        s = absmax_scale(x, aq)
        if case["ascale"] == "saturating":
            s = s * 0.4
        elif case["ascale"] == "drawn":
            s = torch.tensor(mag / 40.0, dtype=dtype)
        s = torch.where(s > 0, s, torch.ones_like(s))
        ax = case.get("act_axis")
        if ax is not None and x.ndim >= 2 and x.shape[ax] > 1:
            x = quantize_weight(x.contiguous(), aq, ax)
        else:
            x = quantize_laid_out(x, aq, s, case["layout"])
    else:
        x = lay_out(x, case["layout"])
    rowf = 10.0 ** (torch.rand(N, 1, generator=g, dtype=torch.float64) * 2 - 1)
    wr = torch.randn(N, K, generator=g, dtype=torch.float64)
    if coherent:
        # constant-sign, near-constant rows (a pooling / averaging layer): every code is close to +-127, small true outputs
        wr = (0.9 + 0.1 * wr.abs().clamp(max=1)) * (1.0 / max(K, 1)) / 0.3
        rowf = torch.ones_like(rowf)
    wf = gen.clamp_finite(wr * 0.3 * rowf, dtype)
    if wqt.bits == 8 and (case["entry"] == "bmm" or case["per_tensor_w"]):
        w = wexpand(SymmetricQuantizer.apply(wsrc(wf, case), wqt, None, absmax_scale(wf, wqt)), case)
    elif wqt.bits == 8 and case.get("wlayout") == "tied" and K > 1 and N > 1:
        # tied / Conv1D-style weights: the (in, out) matrix was quantized along ITS first axis and is used transposed, so the
        # scales run along the contraction dimension of the linear (the axis is whatever t() declares)
        w = quantize_weight(wf.t().contiguous(), wqt, 0).t()
    elif wqt.bits == 8:
        w = quantize_weight(wsrc(wf, case), wqt, -1 if case.get("w_axis") == -1 and N > 1 else 0)
    else:
        divs = [None] + [d for d in (32, 64, 128, K // 2 if K % 2 == 0 else None) if d and K % d == 0 and d <= K]
        w = quantize_weight(wf, wqt, 0, divs[case["group"] % len(divs)])
    b = gen.clamp_finite(torch.randn(N, generator=g, dtype=torch.float64), dtype) if case["bias"] else None
    if case.get("bigbias") and coherent and not isinstance(x, QTensor) or (case.get("bigbias") and coherent and isinstance(x, QBytesTensor) and x.axis is None):
        # a product that leaves the range of float16 on its own while product + bias does not (a large negative bias on
        # coherent sums): "finite whenever the reference is representable"
        xd = (x.dequantize() if isinstance(x, QTensor) else x).to(torch.float64)
        r = xd.reshape(-1, K) @ w.dequantize().to(torch.float64).t()
        peak = float(r.abs().max())
        if peak > 0 and w.axis is not None:
            f = 9e4 / peak
            fx = min(f, 200.0 / max(float(xd.abs().max()), 1e-30))
            fw = f / fx
            if fw != 1.0:
                w = quantize_weight(gen.clamp_finite(w.dequantize().to(torch.float64) * fw, dtype), w.qtype, w.axis, getattr(w, "_group_size", None))
                r = xd.reshape(-1, K) @ w.dequantize().to(torch.float64).t() / fw
            f = fx * fw
            xs = gen.clamp_finite(xd * fx, dtype)
            if isinstance(x, QTensor):
                s_ = absmax_scale(xs, x.qtype)
                x = quantize_laid_out(xs, x.qtype, torch.where(s_ > 0, s_, torch.ones_like(s_)), "contig")
            else:
                x = xs
            b = gen.clamp_finite(-0.7 * (r * f).mean(0), dtype)
    return x, w, b


def reference(x, w, b):
    xd = (x.dequantize() if isinstance(x, QTensor) else x).to(torch.float64)
    wd = w.dequantize().to(torch.float64)
    ref = xd @ wd.t()
    mag = xd.abs() @ wd.abs().t()
    if b is not None:
        ref = ref + b.to(torch.float64)
        mag = mag + b.to(torch.float64).abs()
    return ref, mag


def judge(out, tag, case, res, ref, mag, x, w, want_shape, dtype):
    if isinstance(res, Raised):
        out.fail(f"{tag}/raises:{res.type}", res.text)
        return
    if isinstance(res, QTensor):
        res = res.dequantize()
    res = res.detach()
    if res.dtype != dtype:
        out.fail(f"{tag}/dtype", f"output {res.dtype}, activations {dtype}")
        return
    if tuple(res.shape) != tuple(want_shape):
        out.fail(f"{tag}/shape", f"output {tuple(res.shape)}, float linear gives {tuple(want_shape)}")
        return
    r64 = res.to(torch.float64)
    u, eta = gen.U[dtype], gen.ETA[dtype]
    K = case["inf"]
    if case["mode"] == "exact":
        want = ref.to(dtype)
        if not torch.equal(want.to(torch.float64), ref):
            out.fail("harness/exact-oracle", "exact-mode reference is not representable (harness bug)")
            return
        if not torch.equal(res, want):
            bad = res != want
            i = int(torch.nonzero(bad.reshape(-1))[0])
            nonfin = not bool(torch.isfinite(res).all())
            out.fail(f"{tag}/{'nonfinite' if nonfin else 'exact-value'}", f"{int(bad.sum())}/{bad.numel()} outputs differ from the exactly representable product, e.g. {r64.reshape(-1)[i].item()!r} vs {ref.reshape(-1)[i].item()!r}")
        return
    tol = (K + 4) * u * mag + 3 * u * ref.abs() + eta
    # (no allowance for the product of the two scales: it is a single multiplication that float32 holds exactly enough; a
    # product formed in float16 underflows for ordinary scales and is a defect, D46)
    fin = ref.abs() + tol < gen.FMAX[dtype]
    bad = fin & ~((r64 - ref).abs() <= tol)
    if bool(bad.any()):
        i = int(torch.nonzero(bad.reshape(-1))[0])
        nonfin = not bool(torch.isfinite(r64[bad]).all())
        out.fail(f"{tag}/{'nonfinite' if nonfin else 'value'}", f"{int(bad.sum())}/{bad.numel()} outputs beyond the accumulation bound, e.g. {r64.reshape(-1)[i].item()!r} vs float64 reference {ref.reshape(-1)[i].item()!r} (bound {tol.reshape(-1)[i].item():.3g})")


def exec_case(case):
    out = Outcome()
    dtype = gen.DT[case["dtype"]]
    r = cut(build, case)
    if isinstance(r, Raised):
        return out.fail(f"build/raises:{r.type}", r.text)
    x, w, b = r
    ref, mag = reference(x, w, b)
    entry = case["entry"]
    if isinstance(x, QBytesTensor) and x.axis is not None and entry in ("op", "routes", "bmm"):
        entry = "linear"  # the library op takes a scalar activation scale: per-axis activations only exist at the linear / mm level
    if isinstance(w, QBytesTensor) and w.axis == -1 and entry in ("op", "routes"):
        entry = "linear"  # the library op takes one scale per OUTPUT feature: weights quantized along the input features never reach it
    xk = "float" if not isinstance(x, QTensor) else ("qint8" if x.qtype.name == "qint8" else "qfloat8")
    wk = "qint8" if case["wq"] == "qint8" else ("qfloat8" if "float8" in case["wq"] else "lowbit")
    want_shape = tuple((x.shape[:-1])) + (case["outf"],)
    before = dict(ROUTES)
    tagbase = f"{xk}-x-{wk}/{case['dtype']}"
    if entry == "linear" or (entry in ("mm", "bmm", "matmul", "op", "routes") and (wk == "lowbit" and entry != "matmul")):
        res = cut(F.linear, x, w, b)
        judge(out, f"linear/{tagbase}", case, res, ref, mag, x, w, want_shape, dtype)
    elif entry == "matmul":
        res = cut(lambda: torch.matmul(x, w.t()) + (b if b is not None else 0))
        judge(out, f"matmul/{tagbase}", case, res, ref, mag, x, w, want_shape, dtype)
    elif entry == "mm":
        x2 = x if x.ndim == 2 else x.reshape(-1, case["inf"])  # (reshaping a per-axis quantized batch dequantizes it: a 2D one is used as it is)
        if isinstance(x2, Raised):
            out.discard = True
            return out
        res = cut(lambda: torch.mm(x2, w.t()) + (b if b is not None else 0))
        judge(out, f"mm/{tagbase}", case, res, ref.reshape(-1, case["outf"]), mag.reshape(-1, case["outf"]), x, w, (case["rows"], case["outf"]), dtype)
    elif entry == "mm_other_axis0":
        # torch.mm(qx, other) where `other` (K, N) is quantized per-axis along its FIRST axis, i.e. the contraction axis
        x2 = x if x.ndim == 2 else x.reshape(-1, case["inf"])
        wt = w.dequantize().t().contiguous()  # (K, N) float
        if wk == "lowbit" or wt.shape[0] == 1:
            out.discard = True
            return out
        other = quantize_weight(wt, w.qtype, 0)
        ref2 = (x2.dequantize() if isinstance(x2, QTensor) else x2).to(torch.float64) @ other.dequantize().to(torch.float64)
        mag2 = (x2.dequantize() if isinstance(x2, QTensor) else x2).to(torch.float64).abs() @ other.dequantize().to(torch.float64).abs()
        res = cut(torch.mm, x2, other)
        judge(out, f"mm-other-axis0/{tagbase}", dict(case, mode="real"), res, ref2, mag2, x, other, (case["rows"], case["outf"]), dtype)
    elif entry == "bmm":
        # (B, R, K) x (B, K, N) with the same weight matrix in every batch
        x3 = x.reshape(1, -1, case["inf"])
        w3 = w.t().unsqueeze(0) if isinstance(w, QBytesTensor) and w.axis is None else w.dequantize().t().unsqueeze(0)
        res = cut(lambda: torch.bmm(x3, w3) + (b if b is not None else 0))
        judge(out, f"bmm/{tagbase}", case, res, ref.reshape(1, -1, case["outf"]), mag.reshape(1, -1, case["outf"]), x, w, (1, case["rows"], case["outf"]), dtype)
    elif entry in ("op", "routes"):
        # the library op and the three python route functions, called directly where their preconditions hold
        if isinstance(x, QBytesTensor):
            # the caller's contract: the product of the two scales, formed in float32; the result has the scales' dtype
            a, scales = x._data, x._scale.to(torch.float32) * w._scale.to(torch.float32)
        else:
            a, scales = x, w._scale
        if scales.ndim == 0:
            scales = scales.reshape(1, 1).expand(case["outf"], 1).contiguous()
        refnb, magnb = reference(x, w, None)
        if entry == "op":
            res = cut(lambda: torch.ops.quanto.qbytes_mm(a, w._data, scales).to(dtype))
            judge(out, f"op/{tagbase}", case, res, refnb, magnb, x, w, want_shape, dtype)
        else:
            res = cut(lambda: ORIG["qbytes_mm"](a, w._data, scales).to(dtype))
            judge(out, f"route-float/{tagbase}", case, res, refnb, magnb, x, w, want_shape, dtype)
            if a.dtype == torch.int8 and w._data.dtype == torch.int8 and case["inf"] > 1:
                res = cut(lambda: ORIG["qbytes_int_mm"](a, w._data, scales).to(dtype))
                judge(out, f"route-int/{tagbase}", case, res, refnb, magnb, x, w, want_shape, dtype)
            if a.dtype == torch.bfloat16 and w._data.dtype == torch.int8 and case["inf"] % 16 == 0:
                res = cut(lambda: ORIG["qbytes_int8pack_mm"](a, w._data, scales).to(dtype))
                judge(out, f"route-int8pack/{tagbase}", case, res, refnb, magnb, x, w, want_shape, dtype)
    # weights that live at an address which is not 16-byte aligned (memory-mapped checkpoints), and ANOTHER set of weights
    # written later to the very same address (a staging buffer reused for the next checkpoint): each call sees its own weights
    if entry == "linear" and isinstance(w, QBytesTensor) and not isinstance(x, QTensor) and w._data.ndim == 2 and not out.failures:
        N, K = w._data.shape
        buf = torch.empty(N * K + 1, dtype=torch.int8).view(w._data.dtype)
        slot = buf[1:].view(N, K)

        def staged(codes):
            slot.copy_(codes)
            return QBytesTensor(w.qtype, w.axis, slot.size(), slot.stride(), slot, w._scale)

        for label, codes in (("first", w._data), ("reused-address", w._data.view(torch.int8).flip(1).contiguous().view(w._data.dtype))):
            wv = cut(staged, codes)
            if isinstance(wv, Raised):
                break
            refv, magv = reference(x, wv, b)
            res = cut(F.linear, x, wv, b)
            judge(out, f"linear-unaligned-{label}/{tagbase}", case, res, refv, magv, x, wv, want_shape, dtype)
            if out.failures:
                break
    # the operands are only read: the product of the dequantized operands is the same after the call
    ref_after = cut(lambda: reference(x, w, b)[0])
    if isinstance(ref_after, Raised) or not torch.equal(ref_after.nan_to_num(), ref.nan_to_num()):
        out.fail(f"{entry}/{tagbase}/operands-modified", f"the operands dequantize to other values after the call than before it ({case['act']} x {case['wq']}, {case['dtype']})")
    taken = [k for k in ROUTES if ROUTES[k] != before.get(k, 0)]
    out.klass = [f"act-{xk}", f"w-{wk}", case["dtype"], f"entry-{entry}", f"mode-{case['mode']}"] + [f"route-{t}" for t in taken] + [
        "rows>16" if case["rows"] > 16 else "rows<=16", f"inf%16={case['inf'] % 16 == 0}", f"layout-{case['layout']}", f"wlayout-{case.get('wlayout', 'contig')}", f"sign-{case.get('sign', 'mixed')}", f"waxis{case.get('w_axis', 0)}"]
    default = case["dtype"] == "fp32" and case["act"] == "float" and case["inf"] % 32 == 0 and case["inf"] == case["outf"]
    out.nontrivial = not default
    out.fingerprint = [case[k] for k in ("dtype", "act", "wq", "rows", "brank", "inf", "outf", "bias", "mode", "entry", "layout")] + [case.get("act_axis"), case.get("wlayout"), case.get("sign"), case.get("w_axis")]
    return out


def run(ctx):
    drive(ctx, cases(), exec_case, max(1, int(ctx.params["n"] * ctx.params.get("scale", 1))))
    ctx.extra["routes_taken"] = dict(ROUTES)


# (rows, in_features, out_features): every kernel-selection threshold (rows > 16, multiples of 8, in_features 1 / % 4 / % 16),
# square outputs (a scale applied along the wrong side is invisible otherwise) and the suite's own sizes
TRIPLES = [(1, 1, 1), (1, 1, 3), (3, 1, 2), (2, 2, 2), (5, 3, 5), (3, 4, 3), (4, 8, 4), (8, 8, 8), (8, 12, 8), (16, 16, 16), (17, 16, 17), (17, 24, 8),
           (24, 8, 24), (24, 16, 8), (24, 24, 24), (32, 32, 32), (32, 48, 16), (40, 64, 8), (9, 20, 9), (16, 33, 4), (64, 16, 64), (5, 160, 3),
           (1, 3, 2), (1, 16, 16), (1, 32, 8), (1, 160, 3)]  # a single token: its row stride is arbitrary in a transposed / sliced batch


def run_grid(ctx):
    cs = []
    for dt in ("fp32", "fp16", "bf16"):
        for act in ACTS:
            for wq in WQ:
                for (r, k, n) in TRIPLES:
                    for entry in ("linear", "mm", "bmm", "mm_other_axis0"):
                        for ptw in (False, True):
                            if ptw and wq in ("qint4", "qint2"):
                                continue
                            if entry == "bmm" and not (ptw and wq == "qint8" and act == "qint8"):
                                continue  # the quantized bmm path needs two per-tensor qint8 operands
                            if entry == "mm_other_axis0" and (ptw or wq in ("qint4", "qint2")):
                                continue
                            if entry == "linear" and act != "float" and not ptw and (r + n) % 3 == 0:
                                for ax in (0, -1):
                                    cs.append({"dtype": dt, "act": act, "wq": wq, "rows": r, "brank": 1 + (k % 2), "inf": k, "outf": n, "bias": True, "mode": "exact",
                                               "entry": "linear", "layout": "contig", "ascale": "absmax", "group": 0, "per_tensor_w": False, "act_axis": ax,
                                               "seed": ctx.seed * 1000 + r + 7 * k + 13 * n + 1})
                            if entry in ("linear", "mm") and wq not in ("qint4", "qint2") and (r + k) % 2 == 0:
                                # ... and the weights' own layout: column-major payload, rows shared by expansion (per-tensor weights)
                                for wl in ("colmajor",) + (("expanded",) if ptw else ()):
                                    cs.append({"dtype": dt, "act": act, "wq": wq, "rows": r, "brank": 1, "inf": k, "outf": n, "bias": False, "mode": "exact",
                                               "entry": entry, "layout": "contig", "ascale": "absmax", "group": 0, "per_tensor_w": ptw, "wlayout": wl,
                                               "seed": ctx.seed * 1000 + r + 7 * k + 13 * n + 3})
                            if entry == "linear" and wq not in ("qint4", "qint2"):
                                # the kernels behind 8-bit weights read the activations' strides: every size triple in every layout
                                # (a one-row batch transposed has a size-1 dim with a non-canonical stride and still "is contiguous")
                                for lay in ("transposed", "sliced", "offset"):
                                    cs.append({"dtype": dt, "act": act, "wq": wq, "rows": r, "brank": 1 + (n % 2), "inf": k, "outf": n, "bias": (r + n) % 2 == 0, "mode": "exact",
                                               "entry": "linear", "layout": lay, "ascale": "absmax", "group": 0, "per_tensor_w": ptw, "seed": ctx.seed * 1000 + r + 7 * k + 13 * n + 2})
                            if entry == "linear" and wq not in ("qint4", "qint2") and not ptw and k > 1 and n > 1:
                                # weights quantized as an (in, out) matrix and used transposed (tied embeddings, Conv1D checkpoints)
                                cs.append({"dtype": dt, "act": act, "wq": wq, "rows": r, "brank": 1 + (r % 2), "inf": k, "outf": n, "bias": (r + k) % 2 == 0, "mode": "real", "entry": "linear",
                                           "layout": "contig", "ascale": "absmax", "group": 0, "per_tensor_w": False, "wlayout": "tied", "sign": "mixed", "seed": ctx.seed * 1000 + r + 7 * k + 13 * n + 5})
                            if entry in ("mm", "bmm") and wq not in ("qint4", "qint2") and act != "float":
                                # torch.mm / bmm on VIEWS of the quantized operands (an expanded row, a transposed or sliced batch): the
                                # integer GEMM reads the strides of its first operand
                                for lay in ("expanded", "transposed", "sliced"):
                                    cs.append({"dtype": dt, "act": act, "wq": wq, "rows": r, "brank": 1, "inf": k, "outf": n, "bias": False, "mode": "exact", "entry": entry,
                                               "layout": lay, "ascale": "absmax", "group": 0, "per_tensor_w": ptw, "seed": ctx.seed * 1000 + r + 7 * k + 13 * n + 6})
                            if entry == "mm" and wq not in ("qint4", "qint2") and act != "float":
                                # torch.mm with a first operand quantized PER-AXIS (one scale per row, or per column) against per-axis and
                                # per-tensor second operands: every pairing of scale shapes (0-dim or with dimensions) on every route
                                for ax in (0, -1):
                                    for mode, sign in (("exact", "mixed"), ("real", "mixed"), ("real", "one-sided")):
                                        # (one-sided: coherent sums -- the integer accumulators leave the range of float16, the result does not)
                                        cs.append({"dtype": dt, "act": act, "wq": wq, "rows": r, "brank": 1, "inf": k, "outf": n, "bias": False, "mode": mode, "entry": "mm", "sign": sign,
                                                   "layout": "contig", "ascale": "absmax", "group": 0, "per_tensor_w": ptw, "act_axis": ax, "seed": ctx.seed * 1000 + r + 7 * k + 13 * n + 7})
                            if entry == "linear" and act == "float" and (r + n) % 2 == 0:
                                # float activations held in a Parameter
                                cs.append({"dtype": dt, "act": act, "wq": wq, "rows": r, "brank": 1 + (r % 2), "inf": k, "outf": n, "bias": (r + k) % 2 == 1, "mode": "exact", "entry": "linear",
                                           "layout": "contig", "ascale": "absmax", "group": 0, "per_tensor_w": ptw, "xwrap": "parameter", "seed": ctx.seed * 1000 + r + 7 * k + 13 * n + 4})
                            cs.append({"dtype": dt, "act": act, "wq": wq, "rows": r, "brank": 1 if entry != "linear" else 1 + (r % 2), "inf": k, "outf": n,
                                       "bias": (r + k) % 2 == 0, "mode": "exact", "entry": entry, "layout": "expanded" if (entry == "linear" and (r + k + n) % 5 == 0) else "contig", "ascale": "absmax", "group": 0,
                                       "per_tensor_w": ptw, "seed": ctx.seed * 1000 + r + 7 * k + 13 * n})
    for dt in ("fp16", "bf16"):
        for act in ACTS:
            for wq in WQ:
                for (r, k, n) in [(4, 64, 8), (2, 160, 3), (24, 16, 8)]:
                    for wax in (0, -1):
                        if wax == -1 and wq in ("qint4", "qint2"):
                            continue
                        cs.append({"dtype": dt, "act": act, "wq": wq, "rows": r, "brank": 1, "inf": k, "outf": n, "bias": True, "mode": "real", "entry": "linear", "layout": "contig", "ascale": "absmax",
                                   "group": 0, "per_tensor_w": False, "sign": "one-sided", "bigbias": True, "w_axis": wax, "seed": 4 * (ctx.seed * 100 + k + n) + 1})
    # large coherent sums: one-sided float activations of magnitude 20 against near-constant weight rows -- the unscaled sum
    # of activation x code products leaves the range of float16 although the result does not
    for dt in ("fp16", "bf16", "fp32"):
        for wq in WQ:
            if wq in ("qint4", "qint2"):
                continue
            for (r, k, n) in [(4, 256, 8), (2, 160, 3), (1, 64, 5)]:
                for ptw in (False, True):
                    cs.append({"dtype": dt, "act": "float", "wq": wq, "rows": r, "brank": 1, "inf": k, "outf": n, "bias": bool(r % 2), "mode": "real", "entry": "linear", "layout": "contig",
                               "ascale": "absmax", "group": 0, "per_tensor_w": ptw, "sign": "one-sided", "seed": 4 * (ctx.seed * 100 + k + n) + 3})
    from vlib.core import enumerate_cases

    enumerate_cases(ctx, cs[ctx.shard :: ctx.nshards], exec_case,
                    exhaustive_name="dtype x activation kind x weight qtype x 26 threshold size triples x {linear, mm, bmm} x {per-axis, per-tensor} weights, exact mode")
    ctx.extra["routes_taken"] = dict(ROUTES)


def _order():
    from checks import prelude

    return prelude.make_order(cases(), exec_case, lambda c: [c["dtype"], c["act"], c["wq"], c["entry"], c["rows"] > 16, c["inf"] % 16 == 0])


def run_order(ctx):
    strategy, execute = _order()
    drive(ctx, strategy, execute, max(1, int(ctx.params["n"] * ctx.params.get("scale", 1))))


def exec_order(case):
    return _order()[1](case)


SUBCHECKS = {"kernels": {"run": run, "execute": exec_case}, "grid": {"run": run_grid, "execute": exec_case}, "order": {"run": run_order, "execute": exec_order}}
