"""C04 — sub-byte packing: lossless, dense, identical across unpack kernels, ops act on the unpacked values."""
import warnings

import numpy as np
import torch
from hypothesis import strategies as st

from vlib import cppext, gen
from vlib.core import Outcome, Raised, cut, drive, enumerate_cases

import optimum.quanto.library.ops as qops
from optimum.quanto.tensor.qbits.packed import PackedTensor

HAVE_EXT = cppext.attach(build=False)
if not HAVE_EXT:
    raise RuntimeError("C04 needs the C++ unpack kernel built from the current sources (python -m vlib.cppext)")


# ----------------------------------------------------------------------------- reference (written from the docstrings)

def ref_pack(t, bits):
    t = np.asarray(t, dtype=np.uint8)
    vpi = 8 // bits
    R = t.shape[0]
    row_dim = -(-R // vpi)
    out = np.zeros((row_dim,) + t.shape[1:], dtype=np.uint8)
    for r in range(R):
        i, p = divmod(r, row_dim)
        out[p] |= (t[r].astype(np.uint16) << (bits * i)).astype(np.uint8)
    return out


def ref_unpack(packed, bits):
    packed = np.asarray(packed, dtype=np.uint8)
    mask = (1 << bits) - 1
    return np.concatenate([(packed >> (bits * i)) & mask for i in range(8 // bits)], axis=0).astype(np.uint8)


def routes():
    r = {
        "py": lambda p, b: torch.ops.quanto_py.unpack(p, b),
    }
    if HAVE_EXT:
        r["ext"] = lambda p, b: torch.ops.quanto_ext.unpack(p, b)

    def top(p, b):
        with warnings.catch_warnings(record=True) as w:
            warnings.simplefilter("always")
            out = torch.ops.quanto.unpack(p, b)
        if HAVE_EXT and any("Falling back" in str(x.message) for x in w):
            raise RuntimeError("top-level route fell back to python although the C++ kernel is built: " + str(w[0].message)[:150])
        return out

    r["top"] = top

    def disabled(p, b):
        with qops.disable_extensions():
            return torch.ops.quanto.unpack(p, b)

    r["disabled"] = disabled
    return r


ROUTES = routes()


def check_routes(out, packed, bits, tag):
    """every unpack route == reference on this byte tensor"""
    want = ref_unpack(packed.numpy(), bits)
    for name, fn in ROUTES.items():
        got = cut(fn, packed, bits)
        if isinstance(got, Raised):
            out.fail(f"{tag}/route-{name}/raises:{got.type}", got.text)
            continue
        if got.dtype != torch.uint8 or tuple(got.shape) != want.shape:
            out.fail(f"{tag}/route-{name}/form", f"dtype {got.dtype} shape {tuple(got.shape)} want uint8 {want.shape}")
            continue
        if not np.array_equal(got.numpy(), want):
            bad = np.argwhere(got.numpy() != want)[0].tolist()
            out.fail(f"{tag}/route-{name}/value", f"bits={bits} first mismatch at {bad}")
    if not qops._ext_enabled:
        out.fail(f"{tag}/ext-flag", "disable_extensions() left extensions disabled")


def check_pack(out, t, bits, tag):
    """round trip + density + payload content, for one uint8 tensor t with values < 2**bits"""
    vpi = 8 // bits
    t_keep, t_ver = t.clone(), t._version
    p = cut(PackedTensor.pack, t, bits)
    if isinstance(p, Raised):
        return out.fail(f"{tag}/pack/raises:{p.type}", p.text)
    if not torch.equal(t, t_keep) or t._version != t_ver:
        out.fail(f"{tag}/pack/modified-source", "pack() modified the tensor it was given (the round trip must return the ORIGINAL tensor)")
        t = t_keep
    payload = p._data
    want_rows = -(-t.shape[0] * bits // 8)
    if type(payload) is not torch.Tensor or payload.dtype != torch.uint8 or tuple(payload.shape) != (want_rows, *t.shape[1:]):
        out.fail(f"{tag}/pack/density", f"payload {payload.dtype} {tuple(payload.shape)} want uint8 {(want_rows, *t.shape[1:])}")
        return
    if tuple(p.shape) != tuple(t.shape) or p.dtype != torch.uint8:
        out.fail(f"{tag}/pack/outer-form", f"{tuple(p.shape)} {p.dtype}")
    if not np.array_equal(payload.numpy(), ref_pack(t.numpy(), bits)):
        out.fail(f"{tag}/pack/payload", "payload differs from the reference bit layout")
    u = cut(p.unpack)
    if isinstance(u, Raised):
        return out.fail(f"{tag}/unpack/raises:{u.type}", u.text)
    if u.dtype != torch.uint8 or tuple(u.shape) != tuple(t.shape) or not torch.equal(u, t):
        out.fail(f"{tag}/roundtrip", f"unpack(pack(t)) != t (R={t.shape[0]}, R mod {vpi} = {t.shape[0] % vpi})")
    # what unpack() returned belongs to the caller: updating it in place must not change what the packed tensor holds
    if u.numel():
        u.add_(1).bitwise_and_((1 << bits) - 1)
        u2 = cut(p.unpack)
        if isinstance(u2, Raised) or not torch.equal(u2, t):
            out.fail(f"{tag}/unpack-after-caller-update", "a second unpack() no longer returns the packed values after the first result was updated in place")
        r2 = cut(lambda: (p + 0))
        if isinstance(r2, Raised) or not torch.equal(r2, t):
            out.fail(f"{tag}/op-after-caller-update", "an op on the packed tensor no longer acts on the packed values after an earlier unpack() result was updated in place")
    # ... and the tensor that was packed still belongs to the caller: a packed tensor holds the values it was given, so reusing
    # the source buffer afterwards must not change what unpack() returns
    if t.numel() and t is not t_keep:
        upd = cut(lambda: t.add_(1).bitwise_and_((1 << bits) - 1))  # (torch refuses in-place updates of expanded tensors)
        u3 = cut(p.unpack)
        if not isinstance(upd, Raised) and (isinstance(u3, Raised) or not torch.equal(u3, t_keep)):
            out.fail(f"{tag}/unpack-after-source-update", f"unpack() no longer returns the packed values after the caller updated the source tensor in place (R={t.shape[0]})")
        if not isinstance(upd, Raised):
            t.copy_(t_keep)
    payload_keep = payload.clone()
    check_routes(out, payload, bits, tag)
    if not torch.equal(payload, payload_keep):
        out.fail(f"{tag}/unpack/modified-payload", "an unpack route modified the payload it read")
    return p


# ----------------------------------------------------------------------------- (a) complete byte x residue grid

def grid_tensor(bits, R, trail):
    vpi = 8 // bits
    row_dim = -(-R // vpi)
    mask = (1 << bits) - 1
    j = torch.arange(256, dtype=torch.int64)
    rows = torch.arange(R, dtype=torch.int64)
    digit = rows // row_dim  # which block of the byte this row lands in
    t = ((j[None, :] >> (bits * digit[:, None])) & mask).to(torch.uint8)
    return t.reshape((R, *trail))


def exec_grid(case):
    out = Outcome()
    bits, R, trail = case["bits"], case["R"], case["trail"]
    t = grid_tensor(bits, R, trail)
    p = check_pack(out, t, bits, "grid")
    vpi = 8 // bits
    out.nontrivial = True  # every grid case carries all 256 bytes in every full payload row
    out.fingerprint = [bits, R, trail]
    out.klass = [f"bits{bits}", f"Rmod{vpi}={R % vpi}", f"trail-rank{len(trail)}"]
    if p is not None and R % vpi == 0:
        # full rows: the payload really holds every byte value
        if not all(len(torch.unique(row)) == 256 for row in p._data.reshape(p._data.shape[0], -1)):
            out.fail("grid/harness", "grid tensor does not cover all bytes (harness bug)")
    return out


def run_grid(ctx):
    maxR = ctx.params["maxR"]
    trails = [[256], [4, 64], [2, 2, 64]]
    cases = []
    for bits in (2, 4):
        for R in range(1, maxR + 1):
            for k, trail in enumerate(trails):
                if k > 0 and R > 12:
                    continue
                cases.append({"bits": bits, "R": R, "trail": trail})
    mine = cases[ctx.shard :: ctx.nshards]
    enumerate_cases(ctx, mine, exec_grid, exhaustive_name=f"all 256 byte values x every leading dim 1..{maxR} x bits in (2,4)")


# ----------------------------------------------------------------------------- (b) any byte tensor through every route

def byte_tensor(shape, fill, seed):
    n = int(np.prod(shape))
    if fill == "arange":
        v = (torch.arange(n, dtype=torch.int64) * (2 * seed + 1) + seed) % 256
    elif fill == "rand":
        g = torch.Generator().manual_seed(seed)
        v = torch.randint(0, 256, (n,), generator=g)
    else:
        v = torch.full((n,), fill if isinstance(fill, int) else 255, dtype=torch.int64)
    return v.to(torch.uint8).reshape(shape)


@st.composite
def bytes_cases(draw):
    shape = draw(gen.shapes(1, 4, 1, 7))
    layout = list(draw(gen.layouts))
    if len(shape) >= 2 and draw(st.integers(0, 7)) == 0:
        shape[draw(st.integers(1, len(shape) - 1))] = 0  # an empty trailing dimension: nothing to unpack, but the row count still multiplies
        layout = ["contig", 0]
    return {
        "bits": draw(st.sampled_from([2, 4])),
        "shape": shape,
        "fill": draw(st.sampled_from(["arange", "rand", "rand", 255, 0])),
        "seed": draw(st.integers(0, 2**16)),
        "layout": layout,
    }


def exec_bytes(case):
    out = Outcome()
    t = gen.apply_layout(byte_tensor(case["shape"], case["fill"], case["seed"]), case["layout"])
    check_routes(out, t, case["bits"], "bytes")
    if not out.failures and case["seed"] % 2 == 0:
        # the same bytes held as SIGNED bytes (a payload reloaded as int8): what such a tensor unpacks to is not specified, but
        # "every implementation returns identical results on every byte tensor" -- the routes that accept it agree
        ti = t.view(torch.int8)
        got = {name: cut(fn, ti, case["bits"]) for name, fn in ROUTES.items()}
        ok = {n_: g_ for n_, g_ in got.items() if not isinstance(g_, Raised)}
        names_ = sorted(ok)
        for n_ in names_[1:]:
            a_, b_ = ok[names_[0]], ok[n_]
            if a_.dtype != b_.dtype or tuple(a_.shape) != tuple(b_.shape) or not torch.equal(a_, b_):
                out.fail(f"bytes/int8/routes-disagree", f"unpack routes {names_[0]} and {n_} return different results on an int8 byte tensor (bits={case['bits']}, shape {list(t.shape)})")
                break
    out.nontrivial = (not t.is_contiguous()) or len(case["shape"]) != 2
    out.fingerprint = [case["bits"], case["shape"], case["layout"][0], case["fill"] if isinstance(case["fill"], int) else case["seed"] % 7]
    out.klass = [f"layout-{case['layout'][0]}", f"rank{len(case['shape'])}", "noncontig" if not t.is_contiguous() else "contig"]
    return out


# ----------------------------------------------------------------------------- (c) round trip on drawn values

@st.composite
def value_cases(draw):
    bits = draw(st.sampled_from([2, 4]))
    shape = draw(gen.shapes(1, 4, 1, 9))
    if draw(st.booleans()):
        shape[0] = draw(st.integers(1, 41))
    layout = list(draw(gen.layouts))
    if len(shape) >= 2 and draw(st.integers(0, 9)) == 0:
        shape[draw(st.integers(1, len(shape) - 1))] = 0
        layout = ["contig", 0]
    elif draw(st.integers(0, 19)) == 0:
        shape[0] = 0  # no rows at all: "every shape" includes the tensor without rows (ceil(0 x bits / 8) = 0 payload rows)
        layout = ["contig", 0]
    return {
        "bits": bits,
        "shape": shape,
        "seed": draw(st.integers(0, 2**16)),
        "fill": draw(st.sampled_from(["rand", "rand", "max", "alt"])),
        "layout": layout,
    }


def value_tensor(case):
    bits = case["bits"]
    n = int(np.prod(case["shape"]))
    top = (1 << bits) - 1
    if case["fill"] == "rand":
        g = torch.Generator().manual_seed(case["seed"])
        v = torch.randint(0, top + 1, (n,), generator=g)
    elif case["fill"] == "max":
        v = torch.full((n,), top)
    else:
        v = (torch.arange(n) + case["seed"]) % (top + 1)
    return gen.apply_layout(v.to(torch.uint8).reshape(case["shape"]), case["layout"])


def exec_values(case):
    out = Outcome()
    t = value_tensor(case)
    check_pack(out, t, case["bits"], "values")
    vpi = 8 // case["bits"]
    out.nontrivial = t.shape[0] % vpi != 0 or not t.is_contiguous()
    out.fingerprint = [case["bits"], case["shape"], case["layout"][0], case["fill"]]
    out.klass = [f"Rmod{vpi}={t.shape[0] % vpi}", f"rank{t.ndim}", f"layout-{case['layout'][0]}"]
    return out


# ----------------------------------------------------------------------------- (d) ops on a packed tensor

def _dim(t, k):
    return k % t.ndim


OPS = {
    "add": lambda t, a, b: t + (a % 5),
    "sub": lambda t, a, b: t - (a % 3),
    "mul": lambda t, a, b: t * (a % 4),
    "floordiv": lambda t, a, b: t // (1 + a % 3),
    "add_self": lambda t, a, b: t + t,
    "eq": lambda t, a, b: t == (a % 4),
    "lt": lambda t, a, b: t < (a % 4),
    "ge_self": lambda t, a, b: t >= t.flip(0),
    "and": lambda t, a, b: t & (a % 16),
    "or": lambda t, a, b: t | (a % 16),
    "xor": lambda t, a, b: t ^ (a % 16),
    "shl": lambda t, a, b: t << (a % 3),
    "sum": lambda t, a, b: t.sum(),
    "sum_dim": lambda t, a, b: t.sum(_dim(t, a)),
    "amax": lambda t, a, b: t.amax(_dim(t, a)),
    "reshape": lambda t, a, b: t.reshape(-1),
    "flatten": lambda t, a, b: t.flatten(),
    "view": lambda t, a, b: t.contiguous().view(-1),
    "select": lambda t, a, b: t.select(_dim(t, a), b % t.shape[_dim(t, a)]),
    "slice0": lambda t, a, b: t[(a % t.shape[0]) :],
    "slice_step": lambda t, a, b: t[:: 1 + a % 3],
    # the same dimension spelled with a negative index (the packed dimension is the first one, i.e. -ndim)
    "narrow_first_neg": lambda t, a, b: torch.narrow(t, -t.ndim, a % t.shape[0], 1 + b % (t.shape[0] - a % t.shape[0])),
    "narrow_first": lambda t, a, b: torch.narrow(t, 0, a % t.shape[0], 1 + b % (t.shape[0] - a % t.shape[0])),
    "narrow_last": lambda t, a, b: torch.narrow(t, [-1, t.ndim - 1][a % 2], b % t.shape[-1], 1),
    "select_neg": lambda t, a, b: t.select(-t.ndim, b % t.shape[0]),
    "slice_neg_index": lambda t, a, b: t[-(1 + a % t.shape[0]) :],
    "chunk_neg": lambda t, a, b: torch.chunk(t, 2, dim=-t.ndim)[-1],
    "flip_neg": lambda t, a, b: t.flip(-t.ndim),
    "sum_neg": lambda t, a, b: t.sum(-t.ndim),
    "transpose_neg": lambda t, a, b: t.transpose(-t.ndim, -1),
    "cat_neg": lambda t, a, b: torch.cat([t, t], dim=-t.ndim),
    "index_select_neg": lambda t, a, b: t.index_select(-t.ndim, torch.tensor([b % t.shape[0], a % t.shape[0]])),
    "index": lambda t, a, b: t[torch.tensor([a % t.shape[0], b % t.shape[0]])],
    "t": lambda t, a, b: t.transpose(0, -1),
    "permute": lambda t, a, b: t.permute(*reversed(range(t.ndim))),
    "cat": lambda t, a, b: torch.cat([t, t], dim=_dim(t, a)),
    "stack": lambda t, a, b: torch.stack([t, t], dim=_dim(t, a)),
    "clone": lambda t, a, b: t.clone(),
    "detach": lambda t, a, b: t.detach(),
    "to_copy": lambda t, a, b: t.to("cpu", copy=True),
    "flip": lambda t, a, b: t.flip(_dim(t, a)),
    "where": lambda t, a, b: torch.where(t > (a % 4), t, torch.zeros_like(t)),
    "unsqueeze": lambda t, a, b: t.unsqueeze(_dim(t, a)),
    "expand": lambda t, a, b: t.unsqueeze(0).expand(2, *t.shape),
    "equal": lambda t, a, b: torch.equal(t, t.clone()),
    "numpy": lambda t, a, b: torch.from_numpy(t.numpy()) if isinstance(t, PackedTensor) else t.clone(),
    "unique": lambda t, a, b: torch.unique(t),
    "cumsum": lambda t, a, b: t.cumsum(_dim(t, a)),
    "float_sum": lambda t, a, b: (t * 1.5).sum(),
    "argmax": lambda t, a, b: t.argmax(),
    "sort": lambda t, a, b: t.sort(dim=_dim(t, a)).values,
    "roll": lambda t, a, b: t.roll(a % 3, _dim(t, b)),
    "repeat": lambda t, a, b: t.repeat(*([2] * t.ndim)),
}
# in-place operations (the results stay within 2 bits): afterwards the PACKED tensor itself holds the new values
INPLACE_OPS = {
    "zero_": lambda t, a, b: t.zero_(),
    "fill_": lambda t, a, b: t.fill_(a % 4),
    "and_": lambda t, a, b: t.bitwise_and_(a % 4),
    "iand": lambda t, a, b: t.__iand__(b % 4),
    "copy_": lambda t, a, b: t.copy_(torch.full_like(t if not isinstance(t, PackedTensor) else t.unpack(), a % 4)),
    "masked_fill_": lambda t, a, b: t.masked_fill_((t if not isinstance(t, PackedTensor) else t.unpack()) > (a % 3), b % 4),
    "setitem": lambda t, a, b: t.__setitem__(0, a % 4) or t,
}
def _packed_like(t, rows, a):
    """a tensor of `rows` rows and t's trailing shape with values < 4, PACKED like t when t is packed (same bits)"""
    u = t.unpack() if isinstance(t, PackedTensor) else t
    v = ((torch.arange(rows * max(1, u[0].numel())) + a) % 4).to(torch.uint8).reshape((rows, *u.shape[1:]))
    return PackedTensor.pack(v, t._bits) if isinstance(t, PackedTensor) else v


# copies BETWEEN packed tensors: the same shape, or a single row broadcast to every row of the destination
INPLACE_OPS["copy_packed_same"] = lambda t, a, b: t.copy_(_packed_like(t, t.shape[0], a))
INPLACE_OPS["copy_packed_row"] = lambda t, a, b: t.copy_(_packed_like(t, 1, a))
# an operation on other tensors whose result is written INTO the packed tensor (out=)
INPLACE_OPS["out_arg"] = lambda t, a, b: torch.bitwise_and(_plain(t).clone(), a % 4, out=t)
OPS.update(INPLACE_OPS)
OPNAMES = sorted(OPS)


@st.composite
def op_cases(draw):
    c = draw(value_cases())
    c["op"] = draw(st.sampled_from(OPNAMES))
    c["a"] = draw(st.integers(0, 40))
    c["b"] = draw(st.integers(0, 40))
    return c


def _plain(x):
    if isinstance(x, PackedTensor):
        return x.unpack()
    return x


def exec_ops(case):
    out = Outcome()
    t = value_tensor(case)
    op = OPS[case["op"]]
    inplace = case["op"] in INPLACE_OPS
    ref = cut(op, t.clone() if inplace else t, case["a"], case["b"])
    if isinstance(ref, Raised):
        out.discard = True  # the plain-tensor program itself is invalid
        return out
    p = cut(PackedTensor.pack, t, case["bits"])
    if isinstance(p, Raised):
        return out.fail(f"ops/pack/raises:{p.type}", p.text)
    res = cut(op, p, case["a"], case["b"])
    tag = f"ops/{case['op']}"
    if isinstance(res, Raised):
        out.fail(f"{tag}/raises:{res.type}", res.text)
    else:
        res = _plain(res)
        if isinstance(ref, torch.Tensor):
            if not isinstance(res, torch.Tensor) or res.dtype != ref.dtype or res.shape != ref.shape or not torch.equal(res, ref):
                out.fail(f"{tag}/value", f"op(packed) != op(unpacked) for shape {list(t.shape)} bits {case['bits']}")
        elif res != ref:
            out.fail(f"{tag}/value", f"{res!r} != {ref!r}")
        if inplace:
            # the packed tensor itself now holds the result
            now = cut(p.unpack)
            if isinstance(now, Raised) or not torch.equal(now, ref):
                out.fail(f"{tag}/not-applied", f"after the in-place operation the packed tensor does not hold the result (shape {list(t.shape)}, bits {case['bits']})")
            return out
        # the packed operand must not have been modified by a functional op
        if not torch.equal(p.unpack(), t):
            out.fail(f"{tag}/operand-changed", "functional op modified the packed operand")
    # two PACKED operands: a tensor and the same tensor with extra all-zero rows (which land in the first one's padding
    # whenever the row count is not a multiple of the packing factor), an equal copy, and a copy with one value changed
    if t.numel():
        vpi_ = 8 // case["bits"]
        k = 1 + case["a"] % vpi_
        longer = torch.cat([t.contiguous(), torch.zeros((k, *t.shape[1:]), dtype=t.dtype)])
        changed = t.clone().contiguous()
        changed.reshape(-1)[case["b"] % t.numel()] ^= 1
        for name, other in (("longer-zero-rows", longer), ("equal-copy", t.clone().contiguous()), ("one-value-changed", changed)):
            po = cut(PackedTensor.pack, other, case["bits"])
            if isinstance(po, Raised):
                out.fail(f"ops/pack/raises:{po.type}", po.text)
                continue
            for fname, fn in (("equal", torch.equal), ("allclose", lambda a, b: bool(a.shape == b.shape and torch.equal(a, b)))):
                want = cut(fn, t, other)
                got = cut(fn, p, po)
                if isinstance(want, Raised):
                    continue
                if isinstance(got, Raised) or bool(got) != bool(want):
                    out.fail(f"ops/{fname}-two-packed/{name}", f"{fname}(packed, packed) = {got!r}, on the unpacked values {want!r} (shape {list(t.shape)} vs {list(other.shape)}, bits {case['bits']})")
    vpi = 8 // case["bits"]
    out.nontrivial = True
    out.fingerprint = [case["op"], case["bits"], len(case["shape"]), t.shape[0] % vpi, case["layout"][0]]
    out.klass = [f"op-{case['op']}"]
    return out


def _run(strategy, execute, key):
    def run(ctx):
        n = int(ctx.params[key] * ctx.params.get("scale", 1))
        drive(ctx, strategy, execute, max(n, 1))

    return run


SUBCHECKS = {
    "grid": {"run": run_grid, "execute": exec_grid},
    "bytes": {"run": _run(bytes_cases(), exec_bytes, "n"), "execute": exec_bytes},
    "values": {"run": _run(value_cases(), exec_values, "n"), "execute": exec_values},
    "ops": {"run": _run(op_cases(), exec_ops, "n"), "execute": exec_ops},
}


def _order():
    from checks import prelude

    return prelude.make_order(value_cases(), exec_values, lambda c: [c["bits"], len(c["shape"]), c["shape"][0] % (8 // c["bits"]), c["layout"][0]])


def _run_order(ctx):
    strategy, execute = _order()
    drive(ctx, strategy, execute, max(1, int(ctx.params["n"] * ctx.params.get("scale", 1))))


SUBCHECKS["order"] = {"run": _run_order, "execute": lambda case: _order()[1](case)}
