"""C06 — a quantized tensor's reported metadata always matches what it holds (invariant I after every step)."""
import copy
import io

import torch
from hypothesis import strategies as st

from vlib import gen
from vlib import oracle as O
from vlib.core import Outcome, Raised, cut, drive

from checks import common_rows as R
from checks import qprog

from optimum.quanto import QTensor, freeze, quantize, quantize_activation, quantize_weight, absmax_scale, safe_load, safe_save


def exec_program(case):
    return qprog.run_program(case, "c06")


def run_program(ctx):
    n = max(1, int(ctx.params["n"] * ctx.params.get("scale", 1)))
    drive(ctx, qprog.programs(max_steps=ctx.params.get("max_steps", 8)), exec_program, n)


# ----------------------------------------------------------------------------- freshly quantized tensors over the configuration space

def exec_config(case):
    out = Outcome()
    qtype = O.QTALL[case["qtype"]]
    x, gid, ng, names = R.build(case if qtype.bits < 8 else dict(case, group_size=None))
    out.fingerprint = [case["dtype"], case["qtype"], case["axis"], case["shape"], case["group_size"], case.get("entry", "qw")]
    out.klass = [case["qtype"], f"rank{x.ndim}", f"axis{case['axis']}", "grouped" if case["group_size"] else "ungrouped"]
    out.nontrivial = x.ndim != 2 or case["group_size"] is not None or case["axis"] == -1
    if qtype.bits == 8 and case.get("entry") == "qa":
        s = absmax_scale(x, qtype)
        s = torch.where(s > 0, s, torch.ones_like(s))
        q = cut(quantize_activation, x, qtype, s)
    else:
        if qtype.bits == 8 and x.ndim == 1:
            out.discard = True
            return out
        q = cut(quantize_weight, x, qtype, case["axis"], case["group_size"] if qtype.bits < 8 else None)
    if isinstance(q, Raised):
        return out.fail(f"config/{qtype.name}/raises:{q.type}", q.text)
    O.check_invariant(out, f"config/{'qa' if case.get('entry') == 'qa' else 'qw'}/{qprog.kind_key(q)}", q)
    # moves and copies of the fresh tensor
    for name, f in (("detach", lambda t: t.detach()), ("clone", lambda t: t.clone()), ("deepcopy", copy.deepcopy), ("to_copy", lambda t: t.to("cpu", copy=True)),
                    ("parameter", lambda t: torch.nn.Parameter(t, requires_grad=False))):
        r = cut(f, q)
        if isinstance(r, Raised):
            out.fail(f"config/{name}/{qprog.kind_key(q)}/raises:{r.type}", r.text)
            continue
        if isinstance(r, QTensor):
            O.check_invariant(out, f"config/{name}/{qprog.kind_key(q)}", r)
            qprog.move_clause(out, f"config/{name}/{qprog.kind_key(q)}", q, r, None)
    # a scale laid along the WRONG end of the tensor (an optimizer that ignores `axis`, a scale prepared for the transposed weight):
    # whatever the shape -- the counts agree when the first and last dimensions are equal -- the call refuses, or what it returns
    # declares an axis its scale really broadcasts along
    if not out.failures and qtype.bits == 8 and x.ndim >= 2 and case["axis"] in (0, -1) and isinstance(q, QTensor) and q.axis is not None:
        from optimum.quanto.tensor.quantizers import SymmetricQuantizer
        from optimum.quanto import SymmetricOptimizer

        other = -1 if case["axis"] == 0 else 0
        wshape = [1] * x.ndim
        wshape[other] = x.shape[other]
        wrong = (x.abs().amax(dim=[d_ for d_ in range(x.ndim) if d_ != other % x.ndim], keepdim=True) / 100 + 1e-3).to(x.dtype).reshape(wshape)

        class IgnoresAxis(SymmetricOptimizer):
            def optimize(self, base, bits, axis=None):
                return wrong

        for how, call in (("SymmetricQuantizer", lambda: SymmetricQuantizer.apply(x, qtype, case["axis"], wrong)), ("quantize_weight-user-optimizer", lambda: quantize_weight(x, qtype, case["axis"], optimizer=IgnoresAxis()))):
            r = cut(call)
            if isinstance(r, QTensor):
                O.check_invariant(out, f"config/scale-along-the-other-axis/{how}/{qprog.kind_key(r)}", r)
    # a copy ACROSS devices: the destination lives on the meta device (the only other device here), the source on the cpu. The
    # float program is valid (a tensor without storage has nothing to receive); the destination stays one consistent meta tensor
    if not out.failures and case.get("seed", 0) % 2 == 0:
        for sname, src in (("same-config", q), ("plain", x)):
            m = cut(lambda: q.to("meta"))
            if isinstance(m, Raised) or not isinstance(m, QTensor):
                break
            r = cut(lambda: m.copy_(src))
            tag = f"config/copy_-into-meta-from-{sname}/{qprog.kind_key(q)}"
            if isinstance(r, Raised):
                out.fail(f"{tag}/raises:{r.type}", r.text)
                continue
            # (values cannot be read on the meta device: the part of the invariant that can be stated there)
            def inner(t):
                names_, _ = t.__tensor_flatten__()
                for n_ in names_:
                    v_ = getattr(t, n_)
                    if hasattr(v_, "__tensor_flatten__"):
                        yield from ((f"{n_}.{k_}", w_) for k_, w_ in inner(v_))
                    else:
                        yield n_, v_
            devs = {n_: str(v_.device) for n_, v_ in inner(m)}
            if m.device.type != "meta" or any(d_ != "meta" for d_ in devs.values()) or tuple(m.shape) != tuple(q.shape) or m.dtype != q.dtype:
                out.fail(f"{tag}/I/device", f"after copy_ the destination reports device {m.device}, shape {tuple(m.shape)}, dtype {m.dtype}; its inner tensors live on {devs}")
    return out


@st.composite
def config_cases(draw):
    c = draw(R.row_tensor_cases(qtypes=sorted(O.QTALL)))
    c["entry"] = draw(st.sampled_from(["qw", "qw", "qa"]))
    return c


def run_config(ctx):
    drive(ctx, config_cases(), exec_config, max(1, int(ctx.params["n"] * ctx.params.get("scale", 1))))


# ----------------------------------------------------------------------------- tensors coming out of freeze / (de)serialization

@st.composite
def module_cases(draw):
    kind = draw(st.sampled_from(["linear", "linear", "conv"]))
    c = {
        "kind": kind,
        "dtype": draw(gen.dtypes),
        "wq": draw(st.sampled_from(sorted(O.QTALL))),
        "out": draw(st.integers(1, 9)),
        "seed": draw(st.integers(0, 2**16)),
        "serializer": draw(st.sampled_from(["pickle", "weights_only", "safetensors", "none"])),
        "post": draw(st.sampled_from(["none", "deepcopy", "to_copy", "to_dtype", "state_dict_assign"])),
        "channels_last": draw(st.booleans()),
    }
    if kind == "linear":
        c["inf"] = draw(st.sampled_from([1, 3, 8, 33, 64, 128, 160, 192, 256, 288]))
    else:
        c["inf"] = draw(st.integers(1, 6))
        c["k"] = draw(st.integers(1, 3))
    return c


def exec_module(case):
    import os
    import tempfile

    out = Outcome()
    dtype = gen.DT[case["dtype"]]
    g = torch.Generator().manual_seed(case["seed"])
    if case["kind"] == "linear":
        m = torch.nn.Linear(case["inf"], case["out"])
    else:
        m = torch.nn.Conv2d(case["inf"], case["out"], case["k"])
    with torch.no_grad():
        m.weight.copy_(torch.randn(m.weight.shape, generator=g))

    def build():
        mm = copy.deepcopy(m)
        return torch.nn.Sequential(mm).to(dtype)

    model = build()
    wq = O.QTALL[case["wq"]]
    out.fingerprint = [case[k] for k in ("kind", "dtype", "wq", "inf", "out", "serializer", "post", "channels_last")]
    out.klass = [case["kind"], case["wq"], f"ser-{case['serializer']}", f"post-{case['post']}"]
    out.nontrivial = case["serializer"] != "none" or case["post"] != "none"
    r = cut(quantize, model, weights=wq)
    if isinstance(r, Raised):
        return out.fail(f"module/quantize-raises:{r.type}", r.text)
    if case["channels_last"] and case["kind"] == "conv":
        model = model.to(memory_format=torch.channels_last)
    r = cut(freeze, model)
    if isinstance(r, Raised):
        return out.fail(f"module/freeze-raises:{r.type}", r.text)
    w = model[0].weight
    tagk = f"{case['kind']}/{'q8' if wq.bits == 8 else 'qbits'}"
    if not isinstance(w, QTensor):
        return out.fail(f"module/freeze/{tagk}/not-quantized", f"frozen weight is {type(w).__name__}")
    O.check_invariant(out, f"module/freeze/{tagk}", w)
    ref = w.dequantize().clone()
    if case["serializer"] != "none":
        sd = model.state_dict()
        if case["serializer"] == "safetensors" and not (case["channels_last"] and case["kind"] == "conv"):
            # (safetensors refuses non-contiguous payloads of any model, quantized or not: C10's subject, not C06's)
            with tempfile.TemporaryDirectory() as d:
                p = os.path.join(d, "m.safetensors")
                r = cut(safe_save, sd, p)
                if isinstance(r, Raised):
                    return out.fail(f"module/safe_save/{tagk}/raises:{r.type}", r.text)
                sd2 = safe_load(p)
        else:
            b = io.BytesIO()
            r = cut(torch.save, sd, b)
            if isinstance(r, Raised):
                return out.fail(f"module/torch.save/{tagk}/raises:{r.type}", r.text)
            b.seek(0)
            sd2 = cut(torch.load, b, weights_only=(case["serializer"] == "weights_only"))
            if isinstance(sd2, Raised):
                return out.fail(f"module/torch.load/{tagk}/raises:{sd2.type}", sd2.text)
        target = build()
        quantize(target, weights=wq)
        r = cut(target.load_state_dict, sd2, assign=(case["post"] == "state_dict_assign"))
        if isinstance(r, Raised):
            return out.fail(f"module/load_state_dict/{tagk}/raises:{r.type}", r.text)
        w2 = target[0].weight
        if not isinstance(w2, QTensor):
            return out.fail(f"module/load/{tagk}/not-quantized", f"{type(w2).__name__}")
        n0 = len(out.failures)
        O.check_invariant(out, f"module/load/{tagk}", w2)
        if len(out.failures) != n0:
            return out  # (a tensor that is not even self-consistent: nothing further can be asked of it)
        d2 = cut(w2.dequantize)
        if isinstance(d2, Raised) or not qprog._teq(d2, ref):
            out.fail(f"module/load/{tagk}/value", "deserialized weight dequantizes differently" if not isinstance(d2, Raised) else f"dequantize raises {d2.type}")
        model, w = target, w2
    post = case["post"]
    if post == "deepcopy":
        r = cut(copy.deepcopy, model)
    elif post == "to_copy":
        r = cut(lambda: copy.deepcopy(model).to("cpu"))
    elif post == "to_dtype":
        nd = torch.float16 if dtype != torch.float16 else torch.bfloat16
        r = cut(lambda: model.to(nd))
        if isinstance(r, Raised) and wq.bits < 8 and r.type == "ValueError":
            return out  # documented refusal: the dtype of a low-bit tensor cannot be changed
    else:
        return out
    if isinstance(r, Raised):
        return out.fail(f"module/{post}/{tagk}/raises:{r.type}", r.text)
    w3 = r[0].weight
    if isinstance(w3, QTensor):
        O.check_invariant(out, f"module/{post}/{tagk}", w3)
        qprog.move_clause(out, f"module/{post}/{tagk}", w.data if isinstance(w, torch.nn.Parameter) else w, w3.data if isinstance(w3, torch.nn.Parameter) else w3,
                          (torch.float16 if dtype != torch.float16 else torch.bfloat16) if post == "to_dtype" else None)
    else:
        out.fail(f"module/{post}/{tagk}/not-quantized", f"{type(w3).__name__}")
    return out


def run_module(ctx):
    drive(ctx, module_cases(), exec_module, max(1, int(ctx.params["n"] * ctx.params.get("scale", 1))))


def run_pairs(ctx):
    from vlib.core import enumerate_cases

    cases = qprog.pair_cases()
    enumerate_cases(ctx, cases[ctx.shard :: ctx.nshards], exec_program,
                    exhaustive_name="pair programs source -> binary operation: 12 quantized source kinds x 16 operations x 36 companion modes x 8 argument variants")


SUBCHECKS = {
    "program": {"run": run_program, "execute": exec_program},
    "config": {"run": run_config, "execute": exec_config},
    "module": {"run": run_module, "execute": exec_module},
    "pairs": {"run": run_pairs, "execute": exec_program},
}
