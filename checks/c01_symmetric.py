"""C01 — 8-bit symmetric quantization is a nearest-grid-point projection (oracle N)."""
import torch
from hypothesis import strategies as st

from vlib import gen
from vlib import oracle as O
from vlib.core import Outcome, Raised, cut, drive, enumerate_cases

from optimum.quanto import quantize_activation
from optimum.quanto.tensor.quantizers import SymmetricQuantizer

_ALL = {}


def allvals(dtype):
    if dtype not in _ALL:
        _ALL[dtype] = gen.all_finite(dtype)
    return _ALL[dtype]


def _nontrivial(stats):
    return bool(stats) and stats.get("over", 0) > 0 and stats.get("under", 0) > 0 and stats.get("mid", 0) > 0 and stats.get("interior", 0) > 0


def _classes(stats):
    k = []
    if stats:
        k.append("saturating" if stats["over"] and stats["under"] else "non-saturating")
        k.append("has-midpoints" if stats["mid"] else "no-midpoints")
    return k


# ----------------------------------------------------------------------------- (a) complete 16-bit value x scale square

def exec_square(case):
    out = Outcome()
    dtype = gen.DT[case["dtype"]]
    qtype = O.QT8[case["qtype"]]
    x = allvals(dtype)
    scale = gen.from_bits([case["scale_bits"]], dtype).reshape(())
    tag = f"square/{case['entry']}/{qtype.name}/{case['dtype']}"
    if case["entry"] == "qa":
        q = cut(quantize_activation, x, qtype, scale)
    else:
        q = cut(SymmetricQuantizer.apply, x, qtype, None, scale)
    if isinstance(q, Raised):
        return out.fail(f"{tag}/raises:{q.type}", q.text)
    stats, ok, c = O.check_N(out, tag, x, scale, q, qtype)
    if ok is not None:
        d = q.dequantize()
        q2 = cut(quantize_activation, d, qtype, scale)
        O.check_idem(out, tag, q2, ok, c)
    out.nontrivial = _nontrivial(stats)
    out.fingerprint = [case["dtype"], case["qtype"], case["scale_bits"], case["entry"]]
    out.klass = _classes(stats)
    return out


NAMED_SCALES = {
    "fp16": [0x0001, 0x03FF, 0x0400, 0x3C00, 0x3BFF, 0x3C01, 0x7BFF, 0x7800, 0x0200, 0x2000, 0x5BF0, 0x4000],
    "bf16": [0x0001, 0x007F, 0x0080, 0x3F80, 0x3F7F, 0x3F81, 0x7F7F, 0x7F00, 0x0040, 0x2000, 0x42FE, 0x4000],
}


def run_square(ctx):
    per = ctx.params["scales_per_combo"]  # None -> every positive finite scale
    cases = []
    for dn in ("fp16", "bf16"):
        bits_all = gen.positive_finite_bits(gen.DT[dn])
        for qn in O.QT8:
            if per is None:
                chosen = bits_all
            else:
                stride = max(1, len(bits_all) // per)
                off = (ctx.seed * 7919 + sum(map(ord, dn + qn))) % stride
                chosen = sorted(set(bits_all[off::stride]) | set(NAMED_SCALES[dn]))
            for i, b in enumerate(chosen):
                cases.append({"dtype": dn, "qtype": qn, "scale_bits": b, "entry": "qa" if i % 2 == 0 else "sq"})
    mine = cases[ctx.shard :: ctx.nshards]
    name = None
    if per is None:
        name = "every finite fp16/bf16 element value x every positive finite fp16/bf16 scale x {qint8,e4m3fn,e5m2}, per-tensor entry points"
    enumerate_cases(ctx, mine, exec_square, exhaustive_name=name)
    ctx.extra["element_decisions"] = ctx.evaluations * 64000


# ----------------------------------------------------------------------------- (b) fp32 boundary-directed

def fp32_values(qtype, scale32, seed):
    G = O.grid(qtype)
    s = scale32.to(torch.float64)
    mids = (G[:-1] + G[1:]) / 2
    pts = torch.cat([G, mids, G[-1:] * torch.tensor([1.0001, 1.5, 2, 100, 1e6]), G[:1] * torch.tensor([1.0001, 1.5, 2, 100, 1e6])])
    base = (pts * s).to(torch.float32)
    base = base[torch.isfinite(base)]
    bits = base.view(torch.int32).to(torch.int64)
    offs = torch.arange(-3, 4, dtype=torch.int64)
    # +-k ulp neighbours by integer steps on the bit pattern (sign-magnitude: stepping the magnitude)
    mag = (bits & 0x7FFFFFFF)[:, None] + offs[None, :]
    mag = mag.clamp(0, 0x7F7FFFFF)
    sign = (bits & 0x80000000)[:, None]
    nb = (mag | sign).reshape(-1)
    near = gen.from_bits(nb, torch.float32)
    g = torch.Generator().manual_seed(seed)
    rnd = gen.from_bits(torch.randint(0, 2**32, (600,), generator=g), torch.float32)
    rnd = rnd[torch.isfinite(rnd)]
    scaled = (torch.randn(300, generator=g, dtype=torch.float64) * s * float(G[-1]) / 2).to(torch.float32)
    scaled = scaled[torch.isfinite(scaled)]
    return torch.cat([near, rnd, scaled, torch.tensor([0.0, -0.0, torch.finfo(torch.float32).max, -torch.finfo(torch.float32).max, 2.0**-149])])


@st.composite
def fp32_cases(draw):
    kind = draw(st.sampled_from(["bits", "bits", "pow2", "named"]))
    if kind == "bits":
        b = draw(st.integers(1, 0x7F7FFFFF))
    elif kind == "pow2":
        b = draw(st.integers(1, 254)) << 23
    else:
        b = draw(st.sampled_from([0x00000001, 0x007FFFFF, 0x00800000, 0x3F800000, 0x7F7FFFFF, 0x3F7FFFFF, 0x3C010204]))
    return {"qtype": draw(st.sampled_from(sorted(O.QT8))), "scale_bits": b, "seed": draw(st.integers(0, 2**20)), "entry": draw(st.sampled_from(["qa", "sq"]))}


def exec_fp32(case):
    out = Outcome()
    qtype = O.QT8[case["qtype"]]
    scale = gen.from_bits([case["scale_bits"]], torch.float32).reshape(())
    x = fp32_values(qtype, scale, case["seed"])
    tag = f"fp32/{case['entry']}/{qtype.name}"
    if case["entry"] == "qa":
        q = cut(quantize_activation, x, qtype, scale)
    else:
        q = cut(SymmetricQuantizer.apply, x, qtype, None, scale)
    if isinstance(q, Raised):
        return out.fail(f"{tag}/raises:{q.type}", q.text)
    stats, ok, c = O.check_N(out, tag, x, scale, q, qtype)
    if ok is not None:
        q2 = cut(quantize_activation, q.dequantize(), qtype, scale)
        O.check_idem(out, tag, q2, ok, c)
    out.nontrivial = _nontrivial(stats)
    out.fingerprint = [case["qtype"], case["scale_bits"], case["entry"]]
    out.klass = _classes(stats)
    return out


# ----------------------------------------------------------------------------- (c) layouts, ranks, per-axis scales

@st.composite
def layout_cases(draw):
    dn = draw(gen.dtypes)
    rank = draw(st.integers(1, 4))
    square = draw(st.integers(0, 3)) == 0
    if square and rank >= 2:
        n = draw(st.integers(2, 6))
        shape = [n] * rank
    else:
        shape = draw(gen.shapes(rank, rank, 1, 7))
    axes = [None]
    if rank >= 2:
        if shape[0] > 1:
            axes += [0, 0]
        if shape[-1] > 1:
            axes += [-1, -1, rank - 1]
    axis = draw(st.sampled_from(axes))
    return {
        "dtype": dn,
        "qtype": draw(st.sampled_from(sorted(O.QT8))),
        "shape": shape,
        "axis": axis,
        # "overlap": a sliding-window view (unfold): distinct elements share memory without any zero stride
        "layout": ["overlap", draw(st.integers(0, 3))] if rank >= 2 and draw(st.integers(0, 5)) == 0 else list(draw(gen.layouts)),
        "seed": draw(st.integers(0, 2**20)),
        "fill": draw(st.sampled_from(["noise", "noise", "grid", "bits"])),
        "decades": draw(st.integers(0, 8)),
        "sat": draw(st.sampled_from([0.3, 1.0, 1.0, 3.0])),
        # all scales moved together towards the ends of the dtype's range (subnormal scales, scales near the maximum)
        "shift": draw(st.sampled_from([0, 0, 0, 0, -140, -128, -100, -20, 60, 100])),
    }


def layout_inputs(case):
    dtype = gen.DT[case["dtype"]]
    qtype = O.QT8[case["qtype"]]
    shape, axis = case["shape"], case["axis"]
    g = torch.Generator().manual_seed(case["seed"])
    n = 1
    for s in shape:
        n *= s
    nscale = 1 if axis is None else shape[axis]
    # one independent scale per kept-axis index, spread over `decades` decades
    e = (torch.rand(nscale, generator=g, dtype=torch.float64) - 0.5) * case["decades"]
    shift = case.get("shift", 0)
    if dtype == torch.float16:
        shift = max(-20, min(shift, 10))
    sc = (10.0**e * (0.5 + torch.rand(nscale, generator=g, dtype=torch.float64)) * 2.0**shift).to(dtype)
    sc = torch.where(sc > 0, sc, torch.tensor(1.0, dtype=dtype)).clamp(max=torch.finfo(dtype).max)
    if axis is None:
        scale = sc.reshape(())
    else:
        sshape = [1] * len(shape)
        sshape[axis] = shape[axis]
        scale = sc.reshape(sshape)
    s64 = scale.to(torch.float64).expand(shape) if axis is not None else scale.to(torch.float64)
    G = O.grid(qtype)
    if case["layout"][0] == "overlap" and len(shape) >= 2:
        step = 1 + case["layout"][1] % 2
        c, w = shape[-1], shape[-2]
        vb = torch.randn(list(shape[:-2]) + [(w - 1) * step + c], generator=g, dtype=torch.float64) * float(s64.mean()) * float(G[-1]) * 0.6 * case["sat"]
        x = gen.clamp_finite(vb, dtype).unfold(-1, c, step)  # (..., w, c) with strides (..., step, 1)
        return x, scale, qtype, axis
    if case["fill"] == "noise":
        v = torch.randn(shape, generator=g, dtype=torch.float64) * s64 * float(G[-1]) * 0.6 * case["sat"]
    elif case["fill"] == "grid":
        # exact grid points and midpoints (in units of each element's own scale), some beyond the range
        idx = torch.randint(0, len(G) - 1, shape, generator=g)
        half = torch.randint(0, 3, shape, generator=g).double() / 2
        v = (G[idx] + half * (G[idx + 1] - G[idx])) * s64 * case["sat"]
    else:
        v = gen.from_bits(torch.randint(0, 2**16 if dtype != torch.float32 else 2**32, shape, generator=g), dtype).to(torch.float64)
        v = torch.where(torch.isfinite(v), v, torch.zeros_like(v))
    x = gen.clamp_finite(v, dtype)
    x = gen.apply_layout(x, case["layout"])
    return x, scale, qtype, axis


def exec_layout(case):
    out = Outcome()
    x, scale, qtype, axis = layout_inputs(case)
    tag = f"layout/{qtype.name}/{case['dtype']}/axis{axis if axis in (None, 0) else -1}"
    q = cut(SymmetricQuantizer.apply, x, qtype, axis, scale)
    if isinstance(q, Raised):
        return out.fail(f"{tag}/raises:{q.type}", q.text)
    stats, ok, c = O.check_N(out, tag, x, scale, q, qtype)
    want_axis = None if axis is None else (0 if axis == 0 else -1)
    if isinstance(q, O.QBytesTensor) and q.axis != want_axis:
        out.fail(f"{tag}/axis", f"requested axis {axis}, tensor declares {q.axis}")
    if ok is not None:
        q2 = cut(SymmetricQuantizer.apply, q.dequantize(), qtype, axis, scale)
        O.check_idem(out, tag, q2, ok, c)
    if not out.failures and case["layout"][0] not in ("expand", "overlap"):
        # the SAME tensor object after an in-place update: the result is that of its current values
        upd = cut(lambda: x.mul_(0.37 if case["seed"] % 2 else -1.9))
        if case["seed"] % 3 != 0:
            # ... and the same SCALE object updated in place (a calibrated buffer after load_state_dict): its current values count
            f = 2.5 if case["seed"] % 3 == 1 else 0.4
            if bool(torch.isfinite(scale * f).all()) and bool((scale * f > 0).all()):
                scale.mul_(f)
        if not isinstance(upd, Raised):
            q3 = cut(SymmetricQuantizer.apply, x, qtype, axis, scale)
            if isinstance(q3, Raised):
                out.fail(f"{tag}/after-inplace-update/raises:{q3.type}", q3.text)
            else:
                O.check_N(out, f"{tag}/after-inplace-update", x, scale, q3, qtype, idem=False)
    out.nontrivial = bool(stats) and (stats["over"] + stats["under"] > 0) and stats["interior"] > 0 and (axis is not None or not x.is_contiguous() or len(case["shape"]) != 2)
    out.fingerprint = [case["dtype"], case["qtype"], case["shape"], axis, case["layout"][0], case["fill"], case["decades"]]
    sq = len(set(case["shape"])) == 1 and len(case["shape"]) > 1
    out.klass = [f"axis-{axis if axis in (None, 0) else -1}", f"rank{len(case['shape'])}", f"layout-{case['layout'][0]}", "square" if sq else "non-square"] + _classes(stats)
    return out


# ----------------------------------------------------------------------------- (d) scale of another float dtype than the tensor

@st.composite
def mixed_cases(draw):
    dn = draw(gen.dtypes)
    sn = draw(st.sampled_from([d for d in ("fp32", "fp16", "bf16") if d != dn]))
    if sn == "fp32":
        kind = draw(st.sampled_from(["bits", "pow2", "named", "mid", "mid"]))
        if kind == "bits":
            b = draw(st.integers(1, 0x7F7FFFFF))
        elif kind == "pow2":
            b = draw(st.integers(1, 254)) << 23
        elif kind == "mid":
            # 2^-34 .. 2^16: below, inside and above what the 16-bit dtypes of the tensor can hold
            b = (draw(st.integers(93, 143)) << 23) | draw(st.integers(0, 0x7FFFFF))
        else:
            b = draw(st.sampled_from([0x00000001, 0x007FFFFF, 0x00800000, 0x3F800000, 0x7F7FFFFF, 0x3F7FFFFF, 0x3C010204, 0x358637BD, 0x3089705F, 0x3649539C]))
    else:
        allb = gen.positive_finite_bits(gen.DT[sn])
        b = allb[draw(st.integers(0, len(allb) - 1))]
    return {
        "dtype": dn,
        "sdtype": sn,
        "qtype": draw(st.sampled_from(sorted(O.QT8))),
        "scale_bits": b,
        "entry": draw(st.sampled_from(["qa", "qa", "sq", "ax0", "ax-1"])),
        "rows": draw(st.integers(2, 5)),
        "spread": draw(st.lists(st.integers(-4, 4), min_size=1, max_size=5)),
        "seed": draw(st.integers(0, 2**20)),
    }


def exec_mixed(case):
    out = Outcome()
    dtype, sdtype = gen.DT[case["dtype"]], gen.DT[case["sdtype"]]
    qtype = O.QT8[case["qtype"]]
    base = gen.from_bits([case["scale_bits"]], sdtype).reshape(())
    entry = case["entry"]
    tag = f"mixed/{entry}/{qtype.name}/{case['dtype']}-scale-{case['sdtype']}"
    if entry in ("qa", "sq"):
        scale = base
        x = gen.clamp_finite(fp32_values(qtype, scale.to(torch.float32), case["seed"]).to(torch.float64), dtype)
        axis = None
    else:
        n = case["rows"]
        f = torch.tensor([2.0 ** case["spread"][i % len(case["spread"])] for i in range(n)], dtype=torch.float64)
        sc = (base.to(torch.float64) * f).to(sdtype)
        sc = torch.where(torch.isfinite(sc) & (sc > 0), sc, base)
        cols = [gen.clamp_finite(fp32_values(qtype, sc[i].to(torch.float32), case["seed"] + i).to(torch.float64), dtype)[:1500] for i in range(n)]
        m = min(len(c) for c in cols)
        x = torch.stack([c[:m] for c in cols])  # (n, m), row i on the grid of scale i
        if entry == "ax0":
            axis, scale = 0, sc.reshape(n, 1)
        else:
            axis, scale, x = -1, sc.reshape(1, n), x.t().contiguous()
    if entry == "qa":
        q = cut(quantize_activation, x, qtype, scale)
    else:
        q = cut(SymmetricQuantizer.apply, x, qtype, axis, scale)
    if isinstance(q, Raised):
        return out.fail(f"{tag}/raises:{q.type}", q.text)
    stats, _, _ = O.check_N(out, tag, x, scale, q, qtype, idem=False, mixed=True)
    s64 = base.to(torch.float64)
    as_x = s64.to(dtype).to(torch.float64)
    changed = not (abs(as_x.item() - s64.item()) <= s64.item() * 2.0**-20) or s64.item() < gen.MINNORMAL[dtype]
    out.nontrivial = bool(stats) and stats.get("interior", 0) > 0 and changed
    out.fingerprint = [case["dtype"], case["sdtype"], case["qtype"], case["scale_bits"], entry]
    out.klass = [f"x-{case['dtype']}", f"scale-{case['sdtype']}", entry, "scale-not-representable-in-x-dtype" if changed else "scale-representable"] + _classes(stats)
    return out


# ----------------------------------------------------------------------------- (e) the N-th call of a process

def _order():
    from checks import prelude

    return prelude.make_order(layout_cases(), exec_layout, lambda c: [c["dtype"], c["qtype"], c["axis"]])


def run_order(ctx):
    strategy, execute = _order()
    drive(ctx, strategy, execute, max(1, int(ctx.params["n"] * ctx.params.get("scale", 1))))


def exec_order(case):
    return _order()[1](case)


def _run(strategy, execute):
    def run(ctx):
        drive(ctx, strategy, execute, max(1, int(ctx.params["n"] * ctx.params.get("scale", 1))))

    return run


# ----------------------------------------------------------------------------- (f) large tensors

LARGE = [("fp32", "qint8", [1030, 4099], None), ("fp16", "qfloat8_e4m3fn", [1030, 4099], 0), ("bf16", "qfloat8_e5m2", [5, 1048577], -1),
         ("fp32", "qint8", [5, 1048577], 0), ("fp16", "qint8", [3, 700, 2003], None), ("fp32", "qfloat8_e4m3fn", [2100, 2003], -1),
         ("bf16", "qint8", [2049, 2048], 0), ("fp32", "qfloat8_e5m2", [4194305], None)]


def run_large(ctx):
    """"all tensor ranks/shapes" includes tensors of several million elements, whose sizes are no multiples of any block size an
    implementation might process them by: a few of them, with the same oracle as the layout cases (every element is judged)"""
    from vlib.core import enumerate_cases

    cs = [{"dtype": dt, "qtype": qt, "shape": shape, "axis": ax, "layout": ["contig", 0], "seed": 17 * ctx.seed + k, "fill": "noise", "decades": 2, "sat": 1.0, "shift": 0}
          for k, (dt, qt, shape, ax) in enumerate(LARGE)]
    enumerate_cases(ctx, cs[ctx.shard :: ctx.nshards], exec_layout, exhaustive_name=None)


SUBCHECKS = {
    "large": {"run": run_large, "execute": exec_layout},
    "square": {"run": run_square, "execute": exec_square},
    "fp32": {"run": _run(fp32_cases(), exec_fp32), "execute": exec_fp32},
    "layout": {"run": _run(layout_cases(), exec_layout), "execute": exec_layout},
    "mixed": {"run": _run(mixed_cases(), exec_mixed), "execute": exec_mixed},
    "order": {"run": run_order, "execute": exec_order},
}
