"""Static registry of checks: module, level, rule text, assumptions and the per-tier plan
(sub-check, number of shards, parameters).  Imported by the parent process; must not import torch."""
from types import SimpleNamespace as NS

CHECKS = {}

CHECKS["C04"] = NS(
    MODULE="c04_pack",
    LEVEL="exploration",
    LEVEL_TEXT=(
        "Generated-input search with an exhaustive core: the byte x residue grid (all 256 byte values in every payload "
        "row, every leading dimension up to the tier's bound, both bit widths) is enumerated completely and every kernel "
        "route is compared with an independent reference on it; shapes, layouts and ops are Hypothesis-sampled. "
        "Exploration, not proof: nothing is claimed beyond the enumerated bound and the sampled shapes."
    ),
    LEVEL_NOTE="trusts numpy bit arithmetic for the reference pack/unpack and that the C++ kernel built under /verif/.build from the tree's sources is the one quanto would build itself",
    TECHNIQUE="property-based testing (Hypothesis) + exhaustive enumeration; round-trip, reference-model and cross-kernel differential oracles",
    NEEDS_CPPEXT=True,
    RULE=(
        "grid: complete enumeration of bits in {2,4} x leading dim R in 1..maxR over tensors in which every one of the "
        "256 byte values occurs in every payload row (all sub-byte value combinations x all residues R mod 8/bits); "
        "bytes/values/ops: Hypothesis-drawn byte tensors, code tensors (rank 1-4, contiguous/permuted/sliced/expanded/"
        "offset layouts) and ~45 functional ops. Oracles: unpack(pack(t))==t, payload shape ceil(R*bits/8) and bit layout "
        "vs a numpy reference written from the docstrings, every route (quanto_py, quanto_ext C++ built from the tree, "
        "quanto top-level with 'no fallback warning' asserted, disable_extensions) == reference unpack, op(packed)==op(t). "
        "Non-trivial: R not a multiple of 8/bits, or non-contiguous input, or rank != 2, or an all-bytes grid tensor, or an "
        "op case; distinct by (bits, shape/R, layout, fill/op)."
    ),
    ASSUMPTIONS=[
        "CPU only: CUDA and MPS unpack kernels cannot be built or run in this sandbox",
        "dtype changes of a packed tensor are a documented refusal and are not generated; in-place ops are not generated",
        "bits outside {2,4} are outside the property's domain",
    ],
    PLAN={
        "quick": [("grid", 4, {"maxR": 64}), ("bytes", 3, {"n": 400}), ("values", 3, {"n": 530}), ("ops", 4, {"n": 620}), ("order", 2, {"n": 150})],
        "thorough": [("grid", 6, {"maxR": 260}), ("bytes", 3, {"n": 12000}), ("values", 3, {"n": 12000}), ("ops", 4, {"n": 15000}), ("order", 4, {"n": 5000})],
    },
)

PBT = "property-based testing (Hypothesis-generated cases + exhaustive enumeration of finite sub-domains); "

CHECKS["C01"] = NS(
    MODULE="c01_symmetric",
    LEVEL="exploration",
    LEVEL_TEXT=(
        "Per-element float64 nearest-grid-point oracle over (a) the complete finite value space of float16 and bfloat16 "
        "against a stride of (quick) or every (thorough: exhaustive value x scale square) positive finite scale, (b) "
        "boundary-directed float32 values (every grid point and rounding midpoint +-3 ulp, beyond-range, random bit "
        "patterns), (c) Hypothesis-drawn ranks/shapes/layouts with independent per-axis scales, (d) scales of another float "
        "dtype than the tensor (per-tensor and per-axis), (e) order: the layout cases after a history of up to four unrelated library calls, "
        "each history in a forked child, (f) eight tensors of 4-5 million elements whose sizes are multiples of no block size. Exploration; float32, layouts and mixed dtypes are sampled, the "
        "16-bit square is complete in the thorough tier."
    ),
    LEVEL_NOTE="trusts torch's float64 arithmetic and dtype conversions for the reference; tolerance 2(|x/s|u+eta) for the single working-dtype division, 2 ulp for dequantization",
    TECHNIQUE=PBT + "float64 reference (nearest grid point), saturation and round-trip (idempotence) oracles",
    RULE=(
        "square: all finite fp16/bf16 values as one tensor x scale bit patterns x {qint8,e4m3fn,e5m2} x {quantize_activation,"
        "SymmetricQuantizer.apply}; fp32: 511 grid points/midpoints +-3ulp + beyond-range + random bit patterns per drawn scale; "
        "layout: rank 1-4, axis None/0/-1, one independent scale per kept index over up to 8 decades, 6 stride recipes, square "
        "shapes over-represented; mixed: tensor dtype x other scale dtype x scale bits over the scale dtype's whole positive "
        "range x {quantize_activation, SymmetricQuantizer per-tensor, axis 0, axis -1} (non-trivial when the scale is not "
        "representable in the tensor's dtype). Non-trivial: the case's tensor has elements beyond the grid on both sides (layout: on a side), "
        "within rounding of a midpoint and strictly interior (layout: and is per-axis, non-contiguous or rank != 2). Distinct by "
        "(dtype, qtype, scale bits | shape, axis, layout, fill)."
    ),
    ASSUMPTIONS=[
        "float32 value space is sampled (boundary-directed), not enumerated",
        "strides limited to the view recipes contig/permuted/step-sliced/expanded/offset",
        "an inf produced because scale*code itself exceeds the dtype max is consistent with correct dequantization and not flagged here",
        "idempotence asserted for fp32/fp16 only, on elements whose scale*code is finite and not subnormal (excluded elements are counted)",
    ],
    PLAN={
        "quick": [("square", 8, {"scales_per_combo": 700}), ("fp32", 4, {"n": 400}), ("layout", 4, {"n": 800}), ("mixed", 4, {"n": 400}), ("order", 4, {"n": 150}), ("large", 2, {})],
        "thorough": [("square", 16, {"scales_per_combo": None}), ("fp32", 8, {"n": 10000}), ("layout", 8, {"n": 15000}), ("mixed", 8, {"n": 8000}), ("order", 8, {"n": 6000}), ("large", 2, {})],
    },
)

CHECKS["C02"] = NS(
    MODULE="c02_affine",
    LEVEL="exploration",
    LEVEL_TEXT=(
        "Hypothesis-generated weight tensors whose rows/groups are independent draws from eleven range classes (zeros, "
        "constant, one-sided, offset, straddling, single non-zero, subnormal, near dtype max, wide dynamic range, tiny) "
        "with per-group magnitudes over ten decades; per-element float64 half-step bound with groups recomputed by "
        "independent index arithmetic, and code equality on re-quantization. Exploration of an unbounded input space."
    ),
    LEVEL_NOTE="trusts float64 reference arithmetic; tolerance step/2 + 4u*max(|lo|,|hi|) + 4u*step*2^bits + eta (derivation in DESIGN 1.5 A)",
    TECHNIQUE=PBT + "float64 per-group error bound and round-trip (re-quantization) oracles",
    RULE=(
        "Hypothesis: dtype x bits x axis in {0,-1} x rank 1-4 shape (small, square, wide up to 512 per-axis elements, conv-like) x "
        "group_size in {None} + divisors x per-group class/magnitude vectors x memory layout of the source {contiguous, permuted / "
        "transposed, step-sliced, offset} x seed. Non-trivial: at least one group that does not "
        "straddle zero (zeros/const/pos/neg/offset/single) and at least one straddling group in the same tensor. Distinct by (dtype, "
        "qtype, axis, shape, group_size, layout, class vector)."
    ),
    ASSUMPTIONS=[
        "rank-1 tensors: the whole vector is one group (what quanto's reduction does and test_affine_quantize_integer_tensor relies on)",
        "re-quantization equality asserted for fp32/fp16 on groups whose scale is positive, finite and not subnormal",
    ],
    PLAN={"quick": [("affine", 12, {"n": 660}), ("order", 4, {"n": 150})], "thorough": [("affine", 16, {"n": 12000}), ("order", 8, {"n": 5000})]},
)

CHECKS["C03"] = NS(
    MODULE="c03_scales",
    LEVEL="exploration",
    LEVEL_TEXT=(
        "Hypothesis-generated row-class tensors through quantize_weight, AbsmaxOptimizer, MaxOptimizer and absmax_scale "
        "(all six qtypes, axis None/0/-1, group sizes): form of the scale/zero-point, non-saturation and full-range bounds "
        "in float64 per group, and a bitwise metamorphic locality relation (replace / rescale / permute / poke other "
        "rows or groups: scale, zero-point and codes of the untouched group must not change). Exploration."
    ),
    LEVEL_NOTE="trusts float64 reference; amax/amin are exact so locality is checked bit-for-bit; qmax is the divisor documented by each entry point (127 for the weight optimizer, finfo/iinfo max for absmax_scale)",
    TECHNIQUE=PBT + "float64 bounds and bitwise metamorphic relation (locality under perturbation of other rows/groups)",
    RULE=(
        "Hypothesis: row-class tensor (as C02, incl. memory layouts) x qtype (6) x entry point (quantize_weight, the optimizers, absmax_scale, "
        "the input scale a QLinear gets from a real Calibration context) x axis x group size x target group x perturbation kind (applied to a "
        "copy or, every third case, in place to the same tensor object); order: the same cases after a history of unrelated library "
        "calls in a forked child. Non-trivial: per-axis/grouped case with >= 2 groups whose absmax differ by > 2x and a perturbation that "
        "really changes another group. Distinct by (dtype, qtype, entry, axis, shape, group size, perturbation, class vector)."
    ),
    ASSUMPTIONS=[
        "all-zero groups are exempt from the non-saturation and full-range clauses (any scale represents them exactly); their finiteness is C16's subject",
        "groups whose range reaches the dtype's maximum (known finding D04) are not judged here",
        "qmax of the weight optimizer is 2^(bits-1)-1 = 127 for float8 as well (its own definition); absmax_scale uses finfo.max",
    ],
    PLAN={"quick": [("scales", 12, {"n": 660}), ("order", 4, {"n": 150})], "thorough": [("scales", 16, {"n": 12000}), ("order", 8, {"n": 5000})]},
)

CHECKS["C16"] = NS(
    MODULE="c16_finite",
    LEVEL="exploration",
    LEVEL_TEXT=(
        "Degenerate-directed generation: tensors assembled row-by-row / group-by-group from zero, constant, one-sided, "
        "offset, single-non-zero, subnormal, tiny, near-dtype-max and ordinary classes in any mixture through "
        "quantize_weight (six qtypes); Linear/Conv2d layers with zero / constant / sparse weights with and without "
        "quantized activations; calibration on zero / constant / tiny / huge batches followed by inference. Oracles: "
        "finiteness, the C01/C02 per-element bounds, exact zero for zero rows, exact bias for zero-weight layers. Exploration."
    ),
    LEVEL_NOTE="trusts float64 reference; rows whose range reaches the dtype's maximum are the recorded known finding (matched by predicate, anything else non-finite is a violation)",
    TECHNIQUE=PBT + "finiteness invariant, float64 error bounds, exact-output oracle for zero-weight layers",
    RULE=(
        "weights: row-class tensors biased towards degenerate classes x 6 qtypes x axis x group size; layers: Linear/Conv2d x weight "
        "pattern {zeros, zero rows, constant, single row, zero columns} x weight qtype x activation qtype x dtype x bias; calib: "
        "1-3 batches from {zeros, const, tiny, huge, single, normal} through Linear / MLP / LayerNorm+Linear, then an ordinary batch. "
        "Non-trivial: at least one degenerate and one ordinary row in the same tensor / a degenerate pattern with activations or bias / "
        "a degenerate calibration batch. Distinct by (dtype, qtypes, axis, shape, class vector | layer config | batch kinds)."
    ),
    ASSUMPTIONS=[
        "8-bit per-axis quantization of rank-1 tensors is a documented rejection and is discarded",
        "exactness of 'zero weights -> bias' is asserted bitwise (projection of the bias when output activations are quantized)",
    ],
    PLAN={
        "quick": [("weights", 8, {"n": 600}), ("layers", 4, {"n": 300}), ("calib", 4, {"n": 200}), ("calibgrid", 4, {})],
        "thorough": [("weights", 8, {"n": 15000}), ("layers", 4, {"n": 8000}), ("calib", 4, {"n": 5000}), ("calibgrid", 4, {})],
    },
)

CHECKS["C05"] = NS(
    MODULE="c05_ops",
    LEVEL="exploration",
    LEVEL_TEXT=(
        "Model-based testing of operation sequences: Hypothesis draws programs (1-3 quantized/plain sources, then 1-8 "
        "(quick) / 1-12 (thorough) steps from ~50 intercepted and ~35 pass-through operations) that an interpreter "
        "resolves against a pool of values; every step is compared with the same op on the CURRENT dequantized operands "
        "(exact / rounding / one output step / accumulation bound by operation class), any exception on a float-valid "
        "step is a violation unless documented, and a frame condition (driven by a float twin that models aliasing) "
        "checks that bystander values do not change. Exploration of an unbounded program space."
    ),
    LEVEL_NOTE="trusts torch's float kernels as the reference semantics and float64 for contraction bounds; operand validity is decided by running the float program first",
    TECHNIQUE=PBT + "stateful/model-based generation of operation sequences, per-step differential oracle against the float op, frame-condition invariant",
    RULE=(
        "Hypothesis programs: sources {per-tensor QBytes (3 qtypes x absmax/saturating/coarse/arbitrary scale), per-axis QBytes, "
        "QBits (int2/int4, grouped or not), plain} x dtype, ranks 1-4 dims 1-5; steps drawn from the op tables with integer "
        "selectors resolved at run time; partners (equal-scale companions, fresh quantized/plain operands) are constructed so "
        "shapes match; `contract` enumerates completely the 2-step programs source -> contraction (9 quantized source kinds x ranks 2, 3 x "
        "square/non-square x 7 contractions x 36 partner kinds x widths x call variants), and `pairs` the 2-step programs source -> binary "
        "operation (12 source kinds x 16 operations x 36 companion modes x 8 argument variants). Non-trivial: >= 2 executed steps, >= 1 step whose result is still quantized, >= 1 step consuming the result "
        "of an earlier step. Distinct by the tuple of (op, operand kinds, result kind) per step."
    ),
    ASSUMPTIONS=[
        "dtype moves target floating dtypes only; integer casts of a quantized tensor have no documented meaning",
        "copy_ is generated for q<-q of equal qtype (the code asserts it) and plain<-q",
        "steps whose float counterpart raises are discarded (float-invalid program), and view() must also be valid on a float twin with the size/stride the wrapper reports",
        "whether a result is still quantized is never asserted: falling back to float is always allowed",
        "values stay representable: a rescaling whose float result overflows the dtype, and tensors whose scale is no longer a finite positive number (overflow / underflow after repeated rescaling), end the part of the program that uses them",
        "aliases: where the float program has an alias (view, detach) the quantized program may hold an independent copy; in-place updates are required on the object they are called on",
    ],
    PLAN={"quick": [("alias", 4, {}), ("contract", 8, {}), ("pairs", 8, {}), ("program", 12, {"n": 1600, "max_steps": 8})],
          "thorough": [("alias", 4, {}), ("contract", 8, {}), ("pairs", 8, {}), ("program", 16, {"n": 12000, "max_steps": 12})]},
)

CHECKS["C06"] = NS(
    MODULE="c06_meta",
    LEVEL="exploration",
    LEVEL_TEXT=(
        "The structural invariant (shape/dtype/device equal to the dequantized value's, one code per element, packed payload "
        "size, scale/zero-point laid along the declared axis or groups, qtype storage = payload dtype, flatten/unflatten "
        "meta consistent) is evaluated on every quantized value produced anywhere in generated operation sequences (the C05 "
        "machine), on freshly quantized tensors over generated configurations and their clone/detach/deepcopy/to/Parameter "
        "copies, and on weights after freeze, state_dict round trips (pickle, weights_only, safetensors), deepcopy and "
        "dtype/device moves of modules. Moves and copies must keep codes and metadata. Exploration."
    ),
    LEVEL_NOTE="trusts quanto's dequantize() as the denotation of a tensor (C01/C02 check that separately); CPU only",
    TECHNIQUE=PBT + "stateful generation of operation sequences with a structural invariant checked after every step; round-trip oracles for copies and serialization",
    RULE=(
        "program: as C05 (invariant on every quantized source and result, per element of list results); config: row-class tensors x 6 "
        "qtypes x axis x group sizes through quantize_weight/quantize_activation and five copy operations; module: Linear/Conv2d x "
        "qtype x dtype x serializer x post-operation (deepcopy, to, to(dtype), assign-load), optionally channels_last. Non-trivial: "
        "a checked tensor that is the result of an operation, a (de)serialization or a copy, i.e. programs with >= 2 steps incl. a "
        "quantized result that is consumed again / configs other than plain rank-2 axis-0 / module cases with a serializer or post-op."
    ),
    ASSUMPTIONS=["real device moves are impossible here (CPU only): cpu->cpu copies and meta are exercised", "AWQ/Marlin subclasses are out of reach on CPU (C15 covers the AWQ layout)"],
    PLAN={
        "quick": [("pairs", 8, {}), ("program", 12, {"n": 2000, "max_steps": 8}), ("config", 2, {"n": 600}), ("module", 2, {"n": 300})],
        "thorough": [("pairs", 8, {}), ("program", 10, {"n": 8000, "max_steps": 12}), ("config", 3, {"n": 10000}), ("module", 3, {"n": 4000})],
    },
)

CHECKS["C07"] = NS(
    MODULE="c07_mm",
    LEVEL="exploration",
    LEVEL_TEXT=(
        "Hypothesis-generated (dtype, activation kind, weight qtype, rows, batch rank, in/out features stratified by residue "
        "class, bias, layout) cases through F.linear, matmul, mm, bmm, the quanto::qbytes_mm op and the three CPU route "
        "functions called directly. Two oracles against a float64 reference of the dequantized operands: exact mode "
        "(small integer codes, a different power-of-two scale per output row, sums bounded so that every partial sum is "
        "exactly representable: the result must be bit-exact on every route whatever the accumulation order) and realistic "
        "mode (accumulation bound, finiteness). Worker crashes (SIGSEGV in torch kernels) are contained and reported. Exploration."
    ),
    LEVEL_NOTE="float64 reference; realistic bound (K+4)u*sum|x||w| + 3u|ref| + eta; CPU routes only (CUDA int GEMM thresholds are exercised through aten.mm dispatch on CPU)",
    TECHNIQUE=PBT + "bit-exact oracle on exactly representable operand sets, float64 accumulation bound, differential between kernel routes, crash containment",
    RULE=(
        "Hypothesis: rows 1-64 (both sides of >16 and %8), features from 34 values covering residues mod 32/16/8/4/odd/1 up to 512, "
        "batch rank 1-3, 3 dtypes, 4 activation kinds x 3 scale kinds, 5 weight qtypes (per-axis, per-tensor, grouped), bias, "
        "contiguous/transposed/sliced activations, 8 entry points, exact/realistic mode. Non-trivial: anything but the suite's corner "
        "(fp32, float activations, square multiple-of-32 features). Distinct by the configuration tuple. The evidence lists how many "
        "calls reached each CPU route (counting shims around the three route functions)."
    ),
    ASSUMPTIONS=[
        "CUDA and MPS kernels are unreachable; AWQ gemm not exercised",
        "1-D activations are outside the property's domain (batch rank 1-3)",
        "route functions are called directly only where their preconditions hold (int GEMM: both int8 and in_features > 1; int8-pack: bf16 x int8, in_features % 16 == 0)",
    ],
    PLAN={"quick": [("grid", 6, {}), ("kernels", 6, {"n": 660}), ("order", 4, {"n": 150})], "thorough": [("grid", 8, {}), ("kernels", 16, {"n": 12000}), ("order", 8, {"n": 5000})]},
)

CHECKS["C08"] = NS(
    MODULE="c08_quantize",
    LEVEL="exploration",
    LEVEL_TEXT=(
        "Structure: Hypothesis draws module trees (Sequential / ModuleList / ModuleDict / custom containers, Linear incl. a user "
        "subclass, Conv2d over stride/padding/dilation/groups/padding_mode, LayerNorm over shape/affine/bias, eight inert layer kinds, "
        "a leaf owning a bare Parameter), a weight/activation configuration and an optional module filter; a full snapshot before "
        "quantize() is diffed against the model after it (exactly the eligible-and-selected modules are replaced by their twin, "
        "hyper-parameters and float parameters bit-identical, everything else the same object and unchanged). Function: every quantized "
        "module kind is run against a float64 evaluation of the float functional on the dequantized weight and the (de)quantized input, "
        "re-quantized with the output scale when activations are on. Exploration."
    ),
    LEVEL_NOTE="float64 reference through torch's own functionals (Conv2d._conv_forward of the base class for padding modes); quanto's quantize_activation is used as the projection of inputs (checked by C01)",
    TECHNIQUE=PBT + "recursive generation of module trees with a structural snapshot-diff oracle; differential oracle against the float functional",
    RULE=(
        "structure: recursive tree strategy (<= 8 leaves, incl. user subclasses of Linear and pairs of modules sharing one Parameter) x 6 weight qtypes (object or name) x 4 activation settings x filter (none or a random "
        "subset of the tree's modules) x dtype. function: module kind x hyper-parameters x dtype x weight qtype x activation qtype x input kind "
        "(float, quantized with the same or another qtype) x scales (ones, drawn, calibrated) x batch rank 0-2 (a single vector included) x autograd "
        "mode (no_grad, inference_mode, grad) x train/eval; LayerNorm with eps in {1e-5,1e-3,1e-1} and magnitudes down to 3e-3. Non-trivial: trees of depth >= 2 with an "
        "ineligible module and (a filter or a LayerNorm); module cases with a non-default hyper-parameter / input kind / batch rank."
    ),
    ASSUMPTIONS=[
        "a root that is itself Linear/Conv2d/LayerNorm is excluded (in-place replacement of the caller's object is impossible); the same module instance registered twice is excluded",
        "LayerNorm fed a float input is evaluated on that float input (the module does not quantize its input)",
        "cases whose float module rejects the input are discarded",
    ],
    PLAN={
        "quick": [("structure", 6, {"n": 300}), ("function", 10, {"n": 300})],
        "thorough": [("structure", 6, {"n": 10000}), ("function", 10, {"n": 15000})],
    },
)

CHECKS["C11"] = NS(
    MODULE="c11_grad",
    LEVEL="exploration",
    LEVEL_TEXT=(
        "Hypothesis-generated Linear/Conv2d twins (six weight qtypes, activations off/qint8/float8 with drawn, saturating or "
        "calibrated scales, input rank 2-4, contiguous / permuted inputs, contiguous / permuted / expanded upstream gradients, "
        "float or already-quantized inputs, frozen or not): gradients of input, weight and bias are compared with autograd of "
        "a float64 reference graph that wraps the same projections in explicit straight-through estimators; frozen weights and "
        "scales must receive no gradient. A second generator interleaves forwards with in-place weight updates / SGD steps and "
        "requires every forward to equal the one computed from the weight as it is now. Exploration."
    ),
    LEVEL_NOTE="float64 autograd of torch's functionals is the reference; bound (K+8)u*|g|.|w| per gradient contraction, computed by running the same bilinear maps on absolute values",
    TECHNIQUE=PBT + "differential oracle against autograd of a float64 straight-through reference graph; short update/forward histories for staleness",
    RULE=(
        "grad: kind x hyper-parameters x weight qtype x activation qtype x scale kind (incl. scales that make activations saturate) x rank x "
        "layouts x frozen (by freeze(), by loading a frozen state_dict, by loading with assign=True) x input kind x train/eval mode. stale: 2-6 steps from {forward, big/small/row in-place update, SGD step}. Non-trivial: input rank != 3, "
        "or non-contiguous input/gradient, or Conv2d, or non-qint8 weights, or frozen; histories with an update followed by a forward."
    ),
    ASSUMPTIONS=["float32 modules only (float64 oracle)", "Linear inputs of rank >= 2 (1-D activations are outside the property's domain)"],
    PLAN={"quick": [("grad", 12, {"n": 250}), ("stale", 4, {"n": 150})], "thorough": [("grad", 12, {"n": 10000}), ("stale", 4, {"n": 5000})]},
)

CHECKS["C12"] = NS(
    MODULE="c12_calib",
    LEVEL="exploration",
    LEVEL_TEXT=(
        "Model-based testing of calibration histories: Hypothesis draws 1-3 successive Calibration contexts (momentum from a list or "
        "drawn in [0,1), streamlining on/off), each with 1-4 batches of magnitudes 10^-3..10^3 (plus a directed batch whose absmax/qmax "
        "is exactly 1.0 and repeated batches), over eight model shapes (single Linear/Conv2d/LayerNorm, chains, a lone module fed "
        "quantized tensors) and three activation qtypes. An independent reference model (first batch initialises, then "
        "m*old+(1-m)*new with the context's momentum; quantized inputs are adopted; ranges recomputed in float64 from inputs observed "
        "by harness-owned per-module hooks and from the float functional) is compared with every module's scales after every batch. Exploration."
    ),
    LEVEL_NOTE="float64 reference model with an explicitly propagated tolerance (8u per update, accumulation bound of the raw output / qmax); per-module pre-hooks only observe inputs",
    TECHNIQUE=PBT + "stateful generation of calibration histories against a reference model of the moving average",
    RULE=(
        "Hypothesis histories: model x activation qtype x weight qtype x dtype x contexts[(momentum, streamline, debug, fresh or re-entered Calibration "
        "object, batches[(magnitude, kind in normal / absmax==qmax / same batch again / same tensor object refilled in place)])]. "
        "Non-trivial: >= 2 batches whose magnitudes differ by > 2x under a momentum != 0.9, or a chained model with >= 2 batches, or >= 2 contexts. "
        "Distinct by the whole history."
    ),
    ASSUMPTIONS=[
        "exactly-zero batches are not generated here (a null range carries no information; C16 covers them)",
        "with streamlining the law is asserted while a module's activations are enabled; a module switched off must keep its scales",
        "all modules of a model share one activation qtype (what quantize() produces), so chained quantized inputs are adopted, not re-quantized",
    ],
    PLAN={"quick": [("ema", 16, {"n": 120})], "thorough": [("ema", 16, {"n": 5000})]},
)

CHECKS["C13"] = NS(
    MODULE="c13_scope",
    LEVEL="fault_enumeration",
    LEVEL_TEXT=(
        "Fault enumeration x stateful exploration over GLOBAL state. faults: every combination of exception kind (RuntimeError, "
        "ValueError, KeyboardInterrupt, GeneratorExit, SystemExit, a custom BaseException) x fault position (inside the forward at every "
        "module position of chains of 1..3 quantized layers, or in the with body) x nesting depth 1-2 x streamlining x bystander model is "
        "run and followed by an unrelated forward and a freshly built module. machine: a Hypothesis RuleBasedStateMachine (rules enter / "
        "exit / exit-by-exception / forward / library call / new module, invariants after every step) explores interleavings. purity: every "
        "public quantization entry point (quantize_weight, quantize_activation, the two quantizers, absmax_scale, the optimizers, dequantize, "
        "re-quantization) over qtype x axis x group size (incl. one group per index) x unit dims x memory layouts must leave the tensor it "
        "reads bitwise unchanged (values, version counter, the storage it is a view of) and return the same result twice. The oracle is "
        "a snapshot of torch's global module-hook tables, the torch-function mode stack and quanto's extension flag, plus bitwise "
        "state_dict / flag snapshots around forwards and version counters of tensors handed to library calls."
    ),
    LEVEL_NOTE="the snapshot covers every _global_* hook dict that exists in this torch, the function-mode stack and library.ops._ext_enabled; leaked state is force-restored after being reported so one leak cannot poison later cases",
    TECHNIQUE=PBT + "Hypothesis RuleBasedStateMachine over global state + complete enumeration of injected-exception points; global-state snapshot invariant",
    RULE=(
        "faults: explicit histories [enter x depth, exit through an injected exception at an enumerated point, remaining exits, forward of a "
        "bystander, new module]. machine: up to 12 rule applications per example. Non-trivial: a history with an exceptional exit followed by "
        "a forward of another model or a new module; purity: a grouped, last-axis or non-contiguous configuration. Distinct by the sequence "
        "of (op, exception kind, position, chain length, streamline, model, function) / (function, qtype, dtype, shape, axis, group, layout)."
    ),
    ASSUMPTIONS=["an exception is caught right outside the innermost with block (the other contexts of a nest are then left normally)", "single-threaded: no schedule dimension"],
    PLAN={"quick": [("faults", 6, {"maxn": 3}), ("machine", 6, {"n": 200, "steps": 12}), ("purity", 4, {"n": 600})],
          "thorough": [("faults", 8, {"maxn": 5}), ("machine", 8, {"n": 3000, "steps": 20}), ("purity", 8, {"n": 15000})]},
)

CHECKS["C09"] = NS(
    MODULE="c09_freeze",
    LEVEL="exploration",
    LEVEL_TEXT=(
        "Model-based testing of lifecycle histories: Hypothesis draws a runnable model (MLPs with/without LayerNorm, conv nets over the "
        "Conv2d hyper-parameter space, single Linear with in_features chosen so that every automatic group size occurs), a configuration "
        "(6 weight qtypes x 4 activation settings x 3 dtypes) and 2-7 steps from {forward, calibrate (with and without no_grad, "
        "streamlining on/off), freeze, freeze again, module-level freeze of one quantized module (partially frozen models), deepcopy, "
        "to(cpu) copy, state_dict reload, channels_last, continue on the copy}. "
        "Oracles: outputs on a stored probe batch are bit-identical across freeze and across every copy, a second freeze changes no "
        "tensor and no attribute, freeze touches nothing but the quantized weights, frozen weights satisfy the structural invariant with "
        "the packed payload size and scale / zero-point counts computed from shapes. Exploration."
    ),
    LEVEL_NOTE="bitwise comparison of outputs (same kernels on the same data before and after); CPU only, device moves are cpu->cpu copies",
    TECHNIQUE=PBT + "stateful generation of lifecycle histories; bitwise before/after oracle, idempotence, storage-size formula",
    RULE=(
        "Hypothesis histories as above. Non-trivial: a freeze that is followed by at least one of {freeze again, deepcopy, reload, to copy} or "
        "preceded by a module-level freeze. "
        "Distinct by (model recipe, configuration, step sequence)."
    ),
    ASSUMPTIONS=["real device moves are impossible (CPU only)", "histories whose float model is not finite on the probe batch are discarded"],
    PLAN={"quick": [("lifecycle", 16, {"n": 100})], "thorough": [("lifecycle", 16, {"n": 4000})]},
)

CHECKS["C10"] = NS(
    MODULE="c10_serial",
    LEVEL="exploration",
    LEVEL_TEXT=(
        "Model-based testing of save/load histories: Hypothesis draws a runnable model (in_features chosen so that automatic group sizes "
        "32/64/96/128/none all occur), a configuration (6 weight qtypes x 4 activation settings x 3 dtypes), optional calibration "
        "(streamlining on/off), frozen or not, and 1-3 cycles of (serializer in pickle / weights_only / safetensors, target in "
        "same-quantized / default-quantized / requantize() / same-quantized and already frozen / same-quantized with "
        "load_state_dict(assign=True)). A complete matrix (dtype x qtype x activations x frozen x serializer x target on Linear layers "
        "of three sizes incl. a 256-512-512-128 MLP) is enumerated besides. Oracles per cycle: state_dict values are exactly torch.Tensor or str; the "
        "serializer returns the same keys, strings and bitwise-equal tensors; after loading every quantized module has equal qtypes, "
        "weight class, codes, scales, zero-points, group size, activation scales and float weights; outputs on a probe batch are "
        "bit-identical; saving again gives an equal state_dict. Exploration."
    ),
    LEVEL_NOTE="bitwise comparisons throughout; CPU only; the three serializers are the real ones (torch.save/load, safetensors through quanto's safe_save/safe_load)",
    TECHNIQUE=PBT + "stateful generation of save/load histories; round-trip equality and bitwise output oracles",
    RULE=(
        "Hypothesis histories as above. Non-trivial: a low-bit grouped or float8 weight, or LayerNorm with activations, or an unfrozen save, "
        "or >= 2 cycles. Distinct by (model recipe, configuration, calibration, frozen, cycle list)."
    ),
    ASSUMPTIONS=["CPU only: 'on the device of the target model' is checked for cpu", "memory-format changes (channels_last) are not part of these histories (safetensors refuses non-contiguous tensors of any model)"],
    PLAN={"quick": [("matrix", 8, {}), ("cycles", 8, {"n": 150})], "thorough": [("matrix", 8, {}), ("cycles", 16, {"n": 4000})]},
)

CHECKS["C14"] = NS(
    MODULE="c14_config",
    LEVEL="exploration",
    LEVEL_TEXT=(
        "Enumeration of the configuration grid: quantize_weight over 6 qtypes x axis in {None,-2,-1,0,1,2} x group_size in {None, "
        "1..2*numel} x 4 optimizer families x 14 shapes of rank 1-4 (stratified 1-in-8 sample in the quick tier, complete in the thorough "
        "tier); quantize_activation, SymmetricQuantizer.apply and AffineQuantizer.apply over axis x scale / zero-point shape variants "
        "(complete in both tiers); the optimizers (AbsmaxOptimizer, MaxOptimizer) and group() called directly over axis in "
        "{None,-3..3} x group sizes (the validation the entry points delegate to); the automatic group size for every in_features 1..8192 and a Conv2d channel/group/kernel grid "
        "(complete in both tiers, a sample is instantiated for real, run and frozen). Oracle: outcome is ValueError or a returned tensor; "
        "every listed unsupported configuration must raise ValueError; an accepted tensor must carry exactly the requested qtype/axis/"
        "group size and satisfy the structural invariant and the C01/C02 bounds."
    ),
    LEVEL_NOTE="whether a configuration outside the property's list should be rejected is not second-guessed; values are one fixed non-centred noise tensor per shape (value behaviour is C01/C02's subject)",
    TECHNIQUE="exhaustive enumeration of a finite configuration grid (property-based testing without sampling) with an accept-or-ValueError totality oracle and the shared invariants",
    RULE=(
        "Explicit enumeration as above. Non-trivial: any configuration other than the suite's (axis 0, group None|8, shapes (32,32)/(32,10,32)); "
        "group-size cases other than the suite's sampled in_features. Distinct by the configuration tuple."
    ),
    ASSUMPTIONS=["the symmetric quantizer and quantize_activation are exercised with 8-bit qtypes only (their stated domain)"],
    PLAN={
        "quick": [("weight", 8, {"every": 8}), ("quantizers", 4, {}), ("group", 4, {"max_inf": 8192})],
        "thorough": [("weight", 10, {"every": 1}), ("quantizers", 2, {}), ("group", 4, {"max_inf": 8192})],
    },
)

CHECKS["C15"] = NS(
    MODULE="c15_awq",
    LEVEL="exploration",
    PYTHON_FLAGS=("-O",),
    LEVEL_TEXT=(
        "Runs the CUDA-only AWQ code on CPU under python -O (asserts compiled out). layout: for every admissible shape up to a bound the "
        "position permutation of the v1 (with and without reordering) and v2 packings is recovered completely by packing the base-16 "
        "digit matrices of the position index, and must be a bijection; unpack(pack(t)) == t for those matrices in four layouts "
        "(contiguous, transposed view, column slice, row slice); payloads are bit-identical to the reference packers under external/awq. "
        "random: Hypothesis-drawn matrices (value independence), also reached through chains of detach / .data / Parameter / alias / "
        "clone (the ways modules and serializers hold a packed tensor). equiv: float16 group-128 weights from the row-class generator in the "
        "AWQ-optimised and the standard representation: dequantized values within one float16 rounding per term, conversion back "
        "(qbits_tensor and the state_dict path) restores codes, scales and zero-points bitwise. Exploration with a per-shape complete "
        "characterisation of the layout."
    ),
    LEVEL_NOTE="packing only moves nibbles, so the recovered permutation characterises the function for that shape; the CUDA gemm/gemv kernels and real cuda->cpu moves are out of reach",
    TECHNIQUE=PBT + "complete per-shape recovery of the layout permutation (bijection), differential against the reference packer, round-trip and float16 error-bound oracles",
    RULE=(
        "layout: N multiple of 4 up to maxN, K multiple of 64 (v2) / 8 (v1) up to maxK, x layouts; random / equiv: Hypothesis. Non-trivial: shapes "
        "other than the suite's square 128-1024 ones or a non-contiguous layout; weights with a non-zero zero-point in every group. Distinct by "
        "(packing, reorder, N, K, layout) / (shape, class vector, input form)."
    ),
    ASSUMPTIONS=["no CUDA device: QBitsTensor.create's device test and the gemm kernels are not exercised", "python -O is what makes the asserts on the device type inert; no source hook"],
    PLAN={
        "quick": [("layout", 8, {"maxN": 32, "maxK": 512}), ("random", 3, {"n": 300}), ("equiv", 5, {"n": 150})],
        "thorough": [("layout", 12, {"maxN": 128, "maxK": 2048}), ("random", 2, {"n": 8000}), ("equiv", 4, {"n": 5000})],
    },
)
