"""Static registry of checks: module, level, rule text, assumptions and the per-tier plan
(sub-check, number of shards, parameters).  Imported by the parent process; must not import torch."""
from types import SimpleNamespace as NS

CHECKS = {}

CHECKS["C04"] = NS(
    MODULE="c04_pack",
    LEVEL="exploration",
    LEVEL_TEXT=(
        "Generated-input search with an exhaustive core: the byte x residue grid (all 256 byte values in every payload "
        "row, every leading dimension up to the tier's bound, both bit widths) is enumerated completely and every kernel "
        "route is compared with an independent reference on it; shapes, layouts and ops are Hypothesis-sampled. "
        "Exploration, not proof: nothing is claimed beyond the enumerated bound and the sampled shapes."
    ),
    LEVEL_NOTE="trusts numpy bit arithmetic for the reference pack/unpack and that the C++ kernel built under /verif/.build from the tree's sources is the one quanto would build itself",
    TECHNIQUE="property-based testing (Hypothesis) + exhaustive enumeration; round-trip, reference-model and cross-kernel differential oracles",
    NEEDS_CPPEXT=True,
    RULE=(
        "grid: complete enumeration of bits in {2,4} x leading dim R in 1..maxR over tensors in which every one of the "
        "256 byte values occurs in every payload row (all sub-byte value combinations x all residues R mod 8/bits); "
        "bytes/values/ops: Hypothesis-drawn byte tensors, code tensors (rank 1-4, contiguous/permuted/sliced/expanded/"
        "offset layouts) and ~45 functional ops. Oracles: unpack(pack(t))==t, payload shape ceil(R*bits/8) and bit layout "
        "vs a numpy reference written from the docstrings, every route (quanto_py, quanto_ext C++ built from the tree, "
        "quanto top-level with 'no fallback warning' asserted, disable_extensions) == reference unpack, op(packed)==op(t). "
        "Non-trivial: R not a multiple of 8/bits, or non-contiguous input, or rank != 2, or an all-bytes grid tensor, or an "
        "op case; distinct by (bits, shape/R, layout, fill/op)."
    ),
    ASSUMPTIONS=[
        "CPU only: CUDA and MPS unpack kernels cannot be built or run in this sandbox",
        "dtype changes of a packed tensor are a documented refusal and are not generated; in-place ops are not generated",
        "bits outside {2,4} are outside the property's domain",
    ],
    PLAN={
        "quick": [("grid", 4, {"maxR": 64}), ("bytes", 3, {"n": 400}), ("values", 4, {"n": 400}), ("ops", 5, {"n": 500})],
        "thorough": [("grid", 6, {"maxR": 260}), ("bytes", 3, {"n": 12000}), ("values", 3, {"n": 12000}), ("ops", 4, {"n": 15000})],
    },
)
