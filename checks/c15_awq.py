"""C15 — AWQ layouts are bijective, match the reference packer, and denote the same weights.

Runs under `python -O`: the AWQ code asserts a CUDA device; with asserts compiled out the pure index arithmetic runs
on CPU (no source hook needed).
"""
import importlib.util
import math
import os

import numpy as np
import torch
from hypothesis import strategies as st

from vlib import env, gen
from vlib import oracle as O
from vlib.core import Outcome, Raised, cut, drive, enumerate_cases

from checks import common_rows as R

from optimum.quanto import QBitsTensor, qint4, quantize_weight
from optimum.quanto.tensor.qbits.awq.packed import AWQPackedTensor, AWQPacking
from optimum.quanto.tensor.qbits.awq.qbits import AWQBitsTensor
from optimum.quanto.tensor.qbits.packed import PackedTensor


def _load(name):
    p = os.path.join(env.REPO, "external", "awq", name + ".py")
    spec = importlib.util.spec_from_file_location("ext_awq_" + name, p)
    m = importlib.util.module_from_spec(spec)
    spec.loader.exec_module(m)
    return m


REF_V2 = _load("pack_intweight")
REF_V1 = _load("packing_utils")


def nibbles(packed, packing):
    """all 4-bit slots of a payload, in (row, column, slot) order, as a flat int64 tensor"""
    if packing == "v2":
        u = packed.to(torch.int32) & 0xFFFF
        return torch.stack([(u >> s) & 0xF for s in (0, 4, 8, 12)], dim=-1).reshape(-1).to(torch.int64)
    u = packed.to(torch.int64) & 0xFFFFFFFF
    return torch.stack([(u >> s) & 0xF for s in range(0, 32, 4)], dim=-1).reshape(-1).to(torch.int64)


def lay(t, layout):
    if layout == "transposed":
        return t.t().contiguous().t()
    if layout == "col-slice":
        big = torch.zeros(t.shape[0], t.shape[1] * 2, dtype=t.dtype)
        big[:, ::2] = t
        return big[:, ::2]
    if layout == "row-slice":
        big = torch.zeros(t.shape[0] * 2, t.shape[1], dtype=t.dtype)
        big[1::2] = t
        return big[1::2]
    return t


def _pack(t, pk, reorder, k):
    """AWQPackedTensor.pack(t, packing, reorder) in one of the spellings its signature allows: the layout requested is the
    same whether the arguments are given by keyword or by position"""
    form = k % 4
    if (k // 4) % 3 == 1:
        # the flag as what a caller's expression yields: an int, a numpy bool, a 0-dim bool tensor (true or false like the bool)
        import numpy as np

        reorder = [int(reorder), np.bool_(reorder), torch.tensor(bool(reorder))][(k // 12) % 3]
    if form == 0:
        return cut(AWQPackedTensor.pack, t, packing=pk, reorder=reorder)
    if form == 1:
        return cut(AWQPackedTensor.pack, t, pk, reorder)
    if form == 2:
        return cut(AWQPackedTensor.pack, t, pk, reorder=reorder)
    if not reorder:
        return cut(AWQPackedTensor.pack, t, pk) if pk != AWQPacking.V1 or k % 8 == 3 else cut(AWQPackedTensor.pack, t)
    return cut(AWQPackedTensor.pack, t, reorder=reorder, packing=pk)


def exec_layout(case):
    out = Outcome()
    N, K, packing, reorder, layout = case["N"], case["K"], case["packing"], case.get("reorder", False), case.get("layout", "contig")
    tag = f"layout/{packing}{'-reorder' if reorder else ''}"
    pk = AWQPacking.V2 if packing == "v2" else AWQPacking.V1
    total = N * K
    d = max(1, math.ceil(math.log(total, 16)))
    pos = torch.arange(total, dtype=torch.int64).reshape(N, K)
    src = torch.zeros(total, dtype=torch.int64)
    out.fingerprint = [N, K, packing, reorder, layout]
    out.klass = [packing, f"layout-{layout}", "square" if N == K else "non-square"]
    out.nontrivial = not (N == K and N in (128, 256, 512, 1024)) or layout != "contig"
    for i in range(d):
        digit = ((pos >> (4 * i)) & 0xF).to(torch.uint8)
        t = lay(digit, layout)
        p = _pack(t, pk, reorder, N + K)
        if isinstance(p, Raised):
            return out.fail(f"{tag}/pack-raises:{p.type}", f"{p.text} (N={N}, K={K}, {layout})")
        want_shape, want_dtype = ((N // 4, K), torch.int16) if packing == "v2" else ((N, K // 8), torch.int32)
        if tuple(p._data.shape) != want_shape or p._data.dtype != want_dtype:
            return out.fail(f"{tag}/payload-form", f"{tuple(p._data.shape)} {p._data.dtype}, expected {want_shape} {want_dtype}")
        nb = nibbles(p._data, packing)
        if nb.numel() != total:
            return out.fail(f"{tag}/payload-form", f"{nb.numel()} nibble slots for {total} values")
        src += nb << (4 * i)
        # the corresponding unpacking inverts it, for this matrix
        u = cut(p.unpack)
        if isinstance(u, Raised):
            return out.fail(f"{tag}/unpack-raises:{u.type}/{layout}", f"{u.text} (N={N}, K={K})")
        if tuple(u.shape) != (N, K) or not torch.equal(u.to(torch.uint8), digit):
            return out.fail(f"{tag}/roundtrip/{layout}", f"unpack(pack(t)) != t for N={N}, K={K}, layout {layout}")
        # bit-identical to the reference packers shipped under external/awq
        if packing == "v2":
            ref = REF_V2.pack_intweight(digit.to(torch.int32).contiguous(), interleave=4, kstride=64)
        else:
            ref = REF_V1.pack_awq(digit.to(torch.int32).contiguous(), reorder=reorder)
        if tuple(ref.shape) != tuple(p._data.shape) or not torch.equal(ref.to(torch.int64) & 0xFFFFFFFF, p._data.to(torch.int64) & 0xFFFFFFFF):
            return out.fail(f"{tag}/differs-from-reference", f"payload differs from external/awq reference for N={N}, K={K}")
    # the recovered map slot -> source position must be a bijection onto all positions
    if int(src.min()) < 0 or int(src.max()) >= total or len(torch.unique(src)) != total:
        out.fail(f"{tag}/not-a-bijection", f"recovered position map of N={N}, K={K} hits {len(torch.unique(src))} of {total} positions")
    return out


def layout_grid(maxN, maxK, layouts):
    for N in range(4, maxN + 1, 4):
        for K in range(64, maxK + 1, 64):
            for layout in layouts:
                yield {"N": N, "K": K, "packing": "v2", "layout": layout}
        ks = list(range(8, min(maxK, 128) + 1, 8)) + list(range(192, maxK + 1, 64))
        for K in ks:
            for reorder in (False, True):
                for layout in layouts:
                    if layout != "contig" and (K > 128 or N > 16):
                        continue
                    yield {"N": N, "K": K, "packing": "v1", "reorder": reorder, "layout": layout}


def run_layout(ctx):
    items = list(layout_grid(ctx.params["maxN"], ctx.params["maxK"], ["contig", "transposed", "col-slice", "row-slice"]))
    enumerate_cases(ctx, items[ctx.shard :: ctx.nshards], exec_layout,
                    exhaustive_name=f"position permutation of every shape N<= {ctx.params['maxN']} (mult. of 4) x K <= {ctx.params['maxK']} (mult. of 64 for v2, of 8 for v1) recovered completely per shape")


# ----------------------------------------------------------------------------- value-independence of the layout (random matrices)

@st.composite
def random_cases(draw):
    packing = draw(st.sampled_from(["v1", "v1", "v2"]))
    return {"N": 4 * draw(st.integers(1, 8)), "K": (64 if packing == "v2" else 8) * draw(st.integers(1, 6)), "packing": packing, "reorder": draw(st.booleans()),
            "layout": draw(st.sampled_from(["contig", "contig", "transposed", "col-slice", "row-slice"])), "seed": draw(st.integers(0, 2**16)),
            "via": draw(st.lists(st.sampled_from(VIAS), max_size=2)),
            "codes": draw(st.sampled_from(["u8", "u8", "i8", "i8", "i16", "i32", "i64"]))}


# (__tensor_flatten__/__tensor_unflatten__ of AWQPackedTensor is NOT in the list: it raises on the unchanged tree — str(enum)
# is not a literal — but flattening the packed payload is no clause of C15; see DESIGN 5)
VIAS = ["detach", "data", "parameter", "clone", "alias"]


def alias_of(p, how):
    """the same packed tensor reached the way modules, optimizers and serializers reach it"""
    if how == "detach":
        return p.detach()
    if how == "data":
        return p.data
    if how == "parameter":
        return torch.nn.Parameter(p, requires_grad=False)
    if how == "alias":
        return torch.ops.aten.alias(p)
    if how == "clone":
        return p.clone()
    raise ValueError(how)


def exec_random(case):
    out = Outcome()
    N, K = case["N"], case["K"]
    g = torch.Generator().manual_seed(case["seed"])
    t = lay(torch.randint(0, 16, (N, K), generator=g, dtype=torch.uint8), case["layout"])
    # the integer dtype the 4-bit codes happen to be held in (v1 unpack itself returns int8)
    cdt = {"u8": torch.uint8, "i8": torch.int8, "i16": torch.int16, "i32": torch.int32, "i64": torch.int64}[case.get("codes", "u8")]
    t_in = t.to(cdt)
    pk = AWQPacking.V2 if case["packing"] == "v2" else AWQPacking.V1
    tag = f"random/{case['packing']}"
    p = _pack(t_in, pk, case["reorder"], case.get("seed", 0))
    if isinstance(p, Raised):
        return out.fail(f"{tag}/pack-raises:{p.type}{'' if cdt == torch.uint8 else '/codes-' + case.get('codes', 'u8')}", p.text)
    u = cut(p.unpack)
    if isinstance(u, Raised):
        return out.fail(f"{tag}/unpack-raises:{u.type}/{case['layout']}", u.text)
    if not torch.equal(u.to(torch.uint8), t):
        out.fail(f"{tag}/roundtrip/{case['layout']}", f"unpack(pack(t)) != t (N={N}, K={K}, {case['layout']})")
    # the packed tensor reached through an alias / copy is the same matrix
    p2, path = p, []
    for how in case.get("via", []):
        path.append(how)
        p2 = cut(alias_of, p2, how)
        if isinstance(p2, Raised):
            out.fail(f"{tag}/via-{how}/raises:{p2.type}", p2.text)
            break
        u2 = cut(p2.unpack) if isinstance(p2, AWQPackedTensor) else p2
        if isinstance(u2, Raised):
            out.fail(f"{tag}/via-{how}/unpack-raises:{u2.type}", u2.text)
            break
        if tuple(u2.shape) != (N, K) or not torch.equal(u2.to(torch.uint8), t):
            out.fail(f"{tag}/via-{how}/value{'-reorder' if case['reorder'] and case['packing'] == 'v1' else ''}", f"unpacked values differ after {'->'.join(path)} (N={N}, K={K})")
            break
        if not isinstance(p2, AWQPackedTensor):
            break
    if case["packing"] == "v2":
        ref = REF_V2.pack_intweight(t.to(torch.int32).contiguous(), interleave=4, kstride=64)
        if not torch.equal(ref, p._data):
            out.fail(f"{tag}/differs-from-reference", f"N={N}, K={K}")
    out.fingerprint = [N, K, case["packing"], case["reorder"], case["layout"], case["seed"] % 5, case.get("via", []), case.get("codes", "u8")]
    out.klass = [case["packing"], f"layout-{case['layout']}", f"codes-{case.get('codes', 'u8')}"] + [f"via-{h}" for h in case.get("via", [])]
    out.nontrivial = True
    return out


# ----------------------------------------------------------------------------- representation equivalence

@st.composite
def equiv_cases(draw):
    c = draw(R.row_tensor_cases(degenerate_bias=False, qtypes=("qint4",)))
    c["dtype"] = "fp16"
    # (up to eight groups per row: with N == K / 128 the per-group scale matrix is SQUARE -- a 4- or 8-way router on a 512 / 1024 hidden size)
    c["shape"] = [4 * draw(st.integers(1, 4)), 128 * draw(st.sampled_from([1, 2, 3, 4, 4, 8, 8]))]
    c["axis"] = 0
    c["group_size"] = 128
    c["grouped_input"] = draw(st.booleans())
    c["layout"] = draw(st.sampled_from(["contig", "contig", "transposed"]))
    c["via"] = draw(st.sampled_from(["direct", "direct", "detach", "data", "parameter", "clone", "to-copy"]))
    return c


def exec_equiv(case):
    out = Outcome()
    x, gid, ng, names = R.build(case)
    q = quantize_weight(x, qint4, 0, 128)
    codes_grouped = q._data.unpack()  # (N*K/128, 128)
    size, stride = q.size(), q.stride()
    keep = (q._scale.clone(), q._zeropoint.clone(), codes_grouped.clone())
    data = codes_grouped if case["grouped_input"] else lay(codes_grouped.reshape(size).contiguous(), case["layout"])
    a = cut(AWQBitsTensor, qint4, 0, 128, size, stride, data, q._scale, q._zeropoint)
    out.fingerprint = [case["shape"], names[:6], case["grouped_input"], case["layout"]]
    out.klass = [f"group-{n}" for n in set(names)] + ["grouped-codes" if case["grouped_input"] else "ungrouped-codes", f"layout-{case['layout']}"]
    zp = q._zeropoint.reshape(-1)
    out.nontrivial = tuple(case["shape"]) not in ((128, 128), (256, 256), (512, 512), (1024, 1024)) and bool((zp != 0).any())
    if isinstance(a, Raised):
        return out.fail(f"equiv/construct-raises:{a.type}", a.text)
    via = case.get("via", "direct")
    if via != "direct":
        # the way a frozen module, an optimizer or a serializer reaches the tensor
        if via in ("clone", "to-copy"):
            # copies of the optimised tensor (on this CPU-only platform the copy is built in the standard representation): they
            # denote the same weights
            b = cut(lambda: a.clone() if via == "clone" else a.to(torch.float16, copy=True))
            out.klass.append(f"via-{via}")
            if isinstance(b, Raised):
                return out.fail(f"equiv/via-{via}/raises:{b.type}", b.text)
            db = cut(b.dequantize)
            if isinstance(db, Raised) or tuple(db.shape) != tuple(q.shape) or not torch.equal(db.nan_to_num(), q.dequantize().nan_to_num()):
                if not isinstance(b, AWQBitsTensor):
                    out.fail(f"equiv/via-{via}/value", f"the {via} of an optimised tensor does not dequantize like the standard tensor it was built from")
        else:
            a = cut(alias_of, a, via)
            if isinstance(a, Raised):
                return out.fail(f"equiv/via-{via}/raises:{a.type}", a.text)
            if not isinstance(a, AWQBitsTensor):
                return out.fail(f"equiv/via-{via}/class", f"{type(a).__name__}")
            out.klass.append(f"via-{via}")
    # (1) dequantizes to the same values as the standard representation, up to one float16 rounding per term
    da, dq = cut(a.dequantize), q.dequantize()
    if isinstance(da, Raised):
        return out.fail(f"equiv/dequantize-raises:{da.type}", da.text)
    c64, s64, z64 = O.unpacked_codes(q)
    u, eta = gen.U[torch.float16], gen.ETA[torch.float16]
    tol = u * ((s64 * c64).abs() + (s64 * z64).abs() + dq.to(torch.float64).abs()) * 2 + 4 * eta
    fin = torch.isfinite(dq)
    if tuple(da.shape) != tuple(dq.shape) or da.dtype != dq.dtype:
        return out.fail("equiv/dequantize-form", f"{tuple(da.shape)} {da.dtype}")
    bad = fin & ~((da.to(torch.float64) - dq.to(torch.float64)).abs() <= tol)
    if bool(bad.any()):
        i = int(torch.nonzero(bad.reshape(-1))[0])
        out.fail(f"equiv/dequantize-value/{'grouped' if case['grouped_input'] else case['layout']}", f"{int(bad.sum())} elements: AWQ representation {da.reshape(-1)[i].item()!r} vs standard {dq.reshape(-1)[i].item()!r}")
    # (1b) the dequantized values are the caller's: dequantizing ANOTHER optimised weight of the same size afterwards (a model
    # has many) must not change them, nor does the other weight dequantize to this one's values
    if not out.failures:
        da_keep = da.clone()
        other_codes = (15 - codes_grouped) if case["grouped_input"] else lay((15 - codes_grouped).reshape(size).contiguous(), case["layout"])
        a2 = cut(AWQBitsTensor, qint4, 0, 128, size, stride, other_codes, q._scale * 2, q._zeropoint)
        d2 = a2 if isinstance(a2, Raised) else cut(a2.dequantize)
        if isinstance(d2, Raised):
            out.fail(f"equiv/second-tensor-raises:{d2.type}", d2.text)
        elif not torch.equal(da.nan_to_num(), da_keep.nan_to_num()):
            out.fail("equiv/dequantize/changed-by-later-dequantize", "the dequantized values of an optimised weight changed when another optimised weight of the same size was dequantized")
        else:
            again = cut(a.dequantize)
            if isinstance(again, Raised) or not torch.equal(again.nan_to_num(), da_keep.nan_to_num()):
                out.fail("equiv/dequantize/not-repeatable", "dequantizing the same optimised weight again, after another one, gives other values")
            elif bool(torch.isfinite(d2).all()) and bool(torch.isfinite(again).all()) and torch.equal(d2, again) and bool((q._scale != 0).any()) and bool((again != 0).any()):
                out.fail("equiv/dequantize/changed-by-later-dequantize", "two different optimised weights dequantize to the same tensor")
    # (2) converting back restores codes, scales and zero-points
    for how in ("qbits_tensor", "state_dict", "state_dict-keep_vars"):
        if how == "qbits_tensor":
            b = cut(a.qbits_tensor)
        else:
            def via_sd():
                sd = {}
                a.save_to_state_dict(sd, "w.", how == "state_dict-keep_vars")  # what module.state_dict(keep_vars=...) calls
                return QBitsTensor.load_from_state_dict(sd, "w.")

            b = cut(via_sd)
        tag = f"equiv/{how}"
        if isinstance(b, Raised):
            out.fail(f"{tag}/raises:{b.type}", b.text)
            continue
        if type(b) is not QBitsTensor or b.qtype != qint4 or b.axis != 0 or b._group_size != 128 or tuple(b.shape) != tuple(q.shape):
            out.fail(f"{tag}/metadata", f"{type(b).__name__} {b.qtype} axis {b.axis} group {b._group_size} {tuple(b.shape)}")
            continue
        bd = b._data.unpack() if isinstance(b._data, PackedTensor) else b._data
        if tuple(bd.shape) != tuple(codes_grouped.shape) or not torch.equal(bd, codes_grouped):
            out.fail(f"{tag}/codes", f"codes not restored (payload {tuple(bd.shape)} vs {tuple(codes_grouped.shape)})")
        if tuple(b._scale.shape) != tuple(q._scale.shape) or not torch.equal(b._scale, q._scale):
            out.fail(f"{tag}/scale", "scales not restored")
        if b._zeropoint.dtype != q._zeropoint.dtype or tuple(b._zeropoint.shape) != tuple(q._zeropoint.shape) or not torch.equal(b._zeropoint, q._zeropoint):
            out.fail(f"{tag}/zeropoint", f"zero-points not restored ({b._zeropoint.dtype} {tuple(b._zeropoint.shape)})")
        if not [f for f in out.failures if f[0].startswith(tag)]:
            O.check_invariant(out, tag, b)
            db = cut(b.dequantize)
            if isinstance(db, Raised) or not torch.equal(db.nan_to_num(), dq.nan_to_num()):
                out.fail(f"{tag}/dequantize", "converted tensor does not dequantize like the standard one")
    # building and converting the optimised representation only reads the standard one
    if not (torch.equal(q._scale, keep[0]) and torch.equal(q._zeropoint, keep[1]) and torch.equal(codes_grouped, keep[2])):
        out.fail("equiv/source-modified", "codes, scales or zero-points of the standard tensor changed while the AWQ representation was built / converted back")
    return out


def _run(strategy, execute):
    def run(ctx):
        drive(ctx, strategy, execute, max(1, int(ctx.params["n"] * ctx.params.get("scale", 1))))

    return run


SUBCHECKS = {
    "layout": {"run": run_layout, "execute": exec_layout},
    "random": {"run": _run(random_cases(), exec_random), "execute": exec_random},
    "equiv": {"run": _run(equiv_cases(), exec_equiv), "execute": exec_equiv},
}
