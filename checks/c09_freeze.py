"""C09 — freeze() preserves outputs bit-for-bit, is idempotent and compacts storage (lifecycle histories)."""
import copy

import torch
from hypothesis import strategies as st

from vlib import gen
from vlib import oracle as O
from vlib.core import Outcome, Raised, cut, drive

from checks import models as M

from optimum.quanto import Calibration, QBitsTensor, QBytesTensor, QTensor, freeze, quantize
from optimum.quanto.nn import QModuleMixin
from optimum.quanto.tensor.qbits.packed import PackedTensor

ACT = {"none": None, "qint8": O.QT8["qint8"], "qfloat8_e4m3fn": O.QT8["qfloat8_e4m3fn"], "qfloat8_e5m2": O.QT8["qfloat8_e5m2"]}
STEPS = ["forward", "calibrate", "calibrate-grad", "freeze", "freeze", "freeze_again", "deepcopy", "to_cpu_copy", "reload", "channels_last", "continue_on_copy",
         "freeze_one", "freeze_one", "to_inplace", "to_inplace", "set_scales"]


@st.composite
def cases(draw):
    c = draw(_cases())
    if c["model"]["fam"] == "conv" and draw(st.booleans()):
        # memory-format changes only matter for convolutions and only before the freeze: make them common there
        c["steps"] = ["channels_last"] + c["steps"]
    return c


@st.composite
def _cases(draw):
    return {
        "model": draw(M.runnable(feats=[3, 8, 33, 64, 96, 128, 160, 192, 256])),
        "wq": draw(st.sampled_from(sorted(O.QTALL))),
        "aq": draw(st.sampled_from(sorted(ACT))),
        "dtype": draw(gen.dtypes),
        "seed": draw(st.integers(0, 2**20)),
        "steps": draw(st.lists(st.sampled_from(STEPS), min_size=2, max_size=7)),
        "final": draw(st.sampled_from([None, None, "cpu", "cpu-dtype", "cpu:0", "dtype"])),
    }


class TiedTap(torch.nn.Module):
    """a NON-quantized module of the model that holds the very Parameter a quantized module computes with (weights tied again after
    quantize(), as `tie_weights()` of a language model does between its head and its embedding); it lets its input through"""

    def __init__(self, weight):
        super().__init__()
        self.weight = weight

    def forward(self, x):
        return x


def tie_tap(model, k):
    qmods = [m for m in model.modules() if isinstance(m, QModuleMixin) and m.weight_qtype is not None and isinstance(m.weight, torch.nn.Parameter)]
    if qmods:
        model.append(TiedTap(qmods[k % len(qmods)].weight))
    return bool(qmods)


def same_output(a, b):
    if type(a) is not type(b):
        return False
    if isinstance(a, QBytesTensor):
        return a.qtype == b.qtype and torch.equal(a._data.view(torch.uint8), b._data.view(torch.uint8)) and torch.equal(a._scale, b._scale)
    da = a.dequantize() if isinstance(a, QTensor) else a
    db = b.dequantize() if isinstance(b, QTensor) else b
    return da.dtype == db.dtype and da.shape == db.shape and bool(((da == db) | (torch.isnan(da) & torch.isnan(db))).all())


def flat_state(model):
    """every tensor reachable from state_dict() plus the per-module attributes freeze must not touch"""
    s = {}
    for k, v in model.state_dict().items():
        s[k] = v.detach().clone() if isinstance(v, torch.Tensor) else v
    for n, m in model.named_modules():
        if isinstance(m, QModuleMixin):
            s[f"{n}::attrs"] = (m.weight_qtype, m.activation_qtype, m.weight_group_size, m.frozen, m.training)
    # "untouched" also means: the same Parameter objects, still trainable (or not) as before
    for n, p in model.named_parameters(remove_duplicate=False):
        s[f"{n}::param"] = (id(p), p.requires_grad)
    return s


def diff_state(a, b, ignore=lambda k: False):
    if a.keys() != b.keys():
        return f"keys differ: {sorted(set(a) ^ set(b))[:4]}"
    for k in a:
        if ignore(k):
            continue
        x, y = a[k], b[k]
        if isinstance(x, torch.Tensor):
            if x.dtype != y.dtype or x.shape != y.shape or not torch.equal(x.view(torch.uint8) if x.dtype in (torch.float8_e4m3fn, torch.float8_e5m2) else x, y.view(torch.uint8) if y.dtype in (torch.float8_e4m3fn, torch.float8_e5m2) else y):
                if not (x.dtype.is_floating_point and x.dtype == y.dtype and x.shape == y.shape and bool(((x == y) | (torch.isnan(x) & torch.isnan(y))).all())):
                    return f"{k} changed"
        elif x != y:
            return f"{k}: {x!r} -> {y!r}"
    return None


def check_frozen_storage(out, model, wq, tag):
    """after freeze: requested qtype, invariant I, packed payload size and one scale (and zero-point) per output index or group"""
    for n, m in model.named_modules():
        if not isinstance(m, QModuleMixin) or m.weight_qtype is None:
            continue
        w = m.weight
        kind = "q8" if wq.bits == 8 else "qbits"
        if not isinstance(w, QTensor):
            out.fail(f"{tag}/{kind}/weight-not-quantized", f"{n}: after freeze the weight is a {type(w.data).__name__} (qtype requested {wq.name})")
            continue
        if w.qtype != wq:
            out.fail(f"{tag}/{kind}/wrong-qtype", f"{n}: {w.qtype.name} instead of {wq.name}")
        if w.requires_grad:
            out.fail(f"{tag}/{kind}/requires-grad", f"{n}: frozen weight requires grad")

        def inner(t_, pre=""):
            for n_ in t_.__tensor_flatten__()[0]:
                v_ = getattr(t_, n_)
                if hasattr(v_, "__tensor_flatten__"):
                    yield from inner(v_, pre + n_ + ".")
                else:
                    yield pre + n_, v_

        # compact storage: payload, scale and zero-point are constants -- an inner tensor that still carries an autograd history keeps
        # the float weight it was computed from (and the buffers saved for its backward) alive
        hist = [n_ for n_, v_ in inner(w.data if isinstance(w, torch.nn.Parameter) else w) if v_.requires_grad or v_.grad_fn is not None]
        if hist:
            out.fail(f"{tag}/{kind}/inner-tensor-keeps-autograd-history", f"{n}: {hist} of the frozen weight require grad / carry a grad_fn: the float weight stays alive behind the frozen one")
        O.check_invariant(out, f"{tag}/{kind}", w.data if isinstance(w, torch.nn.Parameter) else w)
        numel = w.numel()
        outf = w.shape[0]
        if isinstance(w, QBitsTensor):
            gs = m.weight_group_size
            if w._group_size != gs:
                out.fail(f"{tag}/qbits/group-size", f"{n}: frozen group size {w._group_size}, module chose {gs}")
            per = numel // outf
            rows, cols = (outf, per) if gs is None else (numel // gs, gs)
            want_payload = -(-rows * wq.bits // 8) * cols
            data = w._data
            if not isinstance(data, PackedTensor) or data._data.numel() != want_payload or data._data.dtype != torch.uint8:
                got = data._data.numel() if isinstance(data, PackedTensor) else data.numel()
                out.fail(f"{tag}/qbits/payload-bytes", f"{n}: payload {got} bytes, expected ceil({rows}*{wq.bits}/8)*{cols} = {want_payload}")
            ngroups = outf * (per // gs if gs else 1)
            if w._scale.numel() != ngroups or w._zeropoint.numel() != ngroups or w._zeropoint.dtype != torch.int8:
                out.fail(f"{tag}/qbits/scale-count", f"{n}: {w._scale.numel()} scales / {w._zeropoint.numel()} zero-points ({w._zeropoint.dtype}) for {ngroups} groups")
        else:
            if w._data.numel() != numel or w._data.element_size() != 1:
                out.fail(f"{tag}/q8/payload-bytes", f"{n}: payload {w._data.numel() * w._data.element_size()} bytes for {numel} elements")
            want_scales = outf if outf > 1 else 1
            if w._scale.numel() != want_scales:
                out.fail(f"{tag}/q8/scale-count", f"{n}: {w._scale.numel()} scales for {outf} output features")


def exec_history(case):
    with M.repeatable_kernels(case["model"]["fam"] == "conv"):
        return _exec_history(case)


def _exec_history(case):
    out = Outcome()
    g = torch.Generator().manual_seed(case["seed"])
    dtype = gen.DT[case["dtype"]]
    wq, aq = O.QTALL[case["wq"]], ACT[case["aq"]]
    model, shape = M.build_runnable(case["model"], g)
    model = model.to(dtype)
    probe = M.batch(shape, dtype, g)
    with torch.no_grad():
        fy = cut(model, probe)
    fam = case["model"]["fam"]
    out.fingerprint = [case["model"], case["wq"], case["aq"], case["dtype"], case["steps"]]
    out.klass = [f"fam-{fam}", case["wq"], f"act-{case['aq']}", case["dtype"]] + [f"step-{s}" for s in set(case["steps"])]
    if isinstance(fy, Raised) or not bool(torch.isfinite(fy).all()):
        out.discard = True
        return out
    opt_kw = {}
    if case["seed"] % 5 == 0:
        # a user-supplied range optimizer (documented argument): freezing must store what the dynamic path computed with it
        opt_kw = {"optimizer": M.custom_optimizer(wq)}
        out.klass.append("custom-optimizer")
    if case["seed"] % 4 == 0:
        # qtypes given by name, as the API documents
        out.klass.append("qtypes-by-name")
        r = cut(quantize, model, weights=case["wq"], activations=None if aq is None else aq.name, **opt_kw)
    else:
        r = cut(quantize, model, weights=wq, activations=aq, **opt_kw)
    if isinstance(r, Raised):
        return out.fail(f"quantize-raises:{r.type}", r.text)
    paramless_ln = not case["model"].get("ln_affine", True)
    if paramless_ln:
        model.to(dtype)  # a LayerNorm without parameters has no dtype quantize() could read: the user casts its scale buffers afterwards
    tied = case["seed"] % 3 == 1 and tie_tap(model, case["seed"])
    if tied:
        out.klass.append("tied-after-quantize")
    if case["seed"] % 2:
        model.eval()
        out.klass.append("eval-mode")
    frozen = False
    did = []
    wk = "q8" if wq.bits == 8 else "qbits"
    # a second probe: the same batch handed over ALREADY quantized (as a previous quantized module would) with a scale of its own
    probe_q = None
    if aq is not None:
        from optimum.quanto import quantize_activation

        s_q = (probe.abs().max() / 90.0).to(dtype)
        probe_q = quantize_activation(probe, aq, torch.where(s_q > 0, s_q, torch.ones_like(s_q)))

    def run_probes(m):
        with torch.no_grad():
            ys = [cut(m, probe)]
            if probe_q is not None:
                ys.append(cut(m, probe_q))
        for y in ys:
            if isinstance(y, Raised):
                return y
        return ys

    def same_outputs(a, b):
        return len(a) == len(b) and all(same_output(x, y) for x, y in zip(a, b))
    mixed = False
    for st_ in case["steps"]:
        tag = st_
        if mixed and st_ not in ("forward", "freeze", "freeze_again", "deepcopy", "freeze_one"):
            continue  # (scales of another float dtype than the model: reloading or moving the model legitimately casts them)
        if st_ == "forward":
            with torch.no_grad():
                y = cut(model, M.batch(shape, dtype, g))
            if isinstance(y, Raised):
                return out.fail(f"forward-raises:{y.type}/{'frozen' if frozen else 'unfrozen'}", y.text)
        elif st_ in ("calibrate", "calibrate-grad"):
            if aq is None:
                continue
            b = M.batch(shape, dtype, g)

            def go():
                with Calibration(streamline=(case["seed"] % 2 == 0)):
                    model(b)

            if st_ == "calibrate":
                with torch.no_grad():
                    r = cut(go)
            else:
                r = cut(go)
            if isinstance(r, Raised):
                return out.fail(f"calibrate-raises:{r.type}", r.text)
        elif st_ == "set_scales":
            # activation scales written by the user (from a config file, as default-dtype float32 tensors), whatever the dtype of
            # the model: freeze() has to leave them as they are
            if aq is None or wq.bits != 8 or frozen or fam != "lin":
                continue  # (only a lone 8-bit QLinear runs with scales of another float dtype than its weights)
            mixed = dtype != torch.float32
            for _, m_ in model.named_modules():
                if isinstance(m_, QModuleMixin) and m_.activation_qtype is not None:
                    m_.input_scale = torch.tensor(0.05 + 0.01 * (case["seed"] % 5))
                    m_.output_scale = torch.tensor(0.11 + 0.01 * (case["seed"] % 3))
        elif st_ in ("freeze", "freeze_again"):
            if st_ == "freeze_again" and not frozen:
                continue
            before_state = flat_state(model)
            y0 = run_probes(model)
            r = cut(freeze, model)
            if isinstance(r, Raised):
                return out.fail(f"freeze-raises:{r.type}/{wk}", r.text)
            y1 = run_probes(model)
            if isinstance(y0, Raised) or isinstance(y1, Raised):
                return out.fail(f"forward-around-freeze-raises/{wk}", f"{y0} / {y1}")
            again = frozen
            if not same_outputs(y0, y1):
                out.fail(f"{'freeze_again' if again else 'freeze'}/{wk}/output-changed", f"outputs immediately before and after {'a second ' if again else ''}freeze() differ ({case['wq']}, act {case['aq']}, {case['dtype']}, {fam})")
            after_state = flat_state(model)
            if again:
                # (the Parameter object wrapping a frozen weight may be a new one: identity is asserted for everything else)
                qn = {n for n, m in model.named_modules() if isinstance(m, QModuleMixin) and m.weight_qtype is not None}
                d = diff_state(before_state, after_state, ignore=lambda k: k.endswith("::param") and any(k == q + ".weight::param" for q in qn))
                if d:
                    out.fail(f"freeze_again/{wk}/not-idempotent", f"freezing again changed {d}")
            else:
                # everything but the weights of quantized modules is untouched
                qnames = {n for n, m in model.named_modules() if isinstance(m, QModuleMixin) and m.weight_qtype is not None}

                def is_weight(k):
                    return any(k.startswith(q + ".weight") or k == q + "::attrs" for q in qnames)

                common_b = {k: v for k, v in before_state.items() if not is_weight(k)}
                common_a = {k: v for k, v in after_state.items() if not is_weight(k)}
                d = diff_state(common_b, common_a)
                if d:
                    out.fail(f"freeze/{wk}/touched-something-else", f"freeze() changed {d}")
            check_frozen_storage(out, model, wq, "freeze")
            frozen = True
        elif st_ == "freeze_one":
            # module-level freeze of ONE quantized module: the model is partially frozen until freeze(model) is called
            qmods = [m for m in model.modules() if isinstance(m, QModuleMixin) and m.weight_qtype is not None]
            if not qmods:
                continue
            k = (case["seed"] + len(did)) % len(qmods)
            y0 = run_probes(model)
            r = cut(qmods[k].freeze)
            if isinstance(r, Raised):
                return out.fail(f"freeze_one-raises:{r.type}/{wk}", r.text)
            y1 = run_probes(model)
            if isinstance(y0, Raised) or isinstance(y1, Raised):
                return out.fail(f"forward-around-freeze-raises/{wk}", f"{y0} / {y1}")
            if not same_outputs(y0, y1):
                out.fail(f"freeze_one/{wk}/output-changed", f"outputs before and after freezing one module differ ({case['wq']}, act {case['aq']}, {case['dtype']}, {fam})")
            if not qmods[k].frozen:
                out.fail(f"freeze_one/{wk}/weight-not-quantized", "module.freeze() left a float weight")
        elif st_ in ("deepcopy", "to_cpu_copy", "reload", "continue_on_copy"):
            y0 = run_probes(model)
            if isinstance(y0, Raised):
                return out.fail(f"forward-raises:{y0.type}/{'frozen' if frozen else 'unfrozen'}", y0.text)
            if st_ == "reload" and "channels_last" in did:
                continue  # a freshly built target has another memory format: float conv kernels differ in rounding, nothing to compare bitwise
            if st_ == "reload":
                sd = {k: (v.detach().clone() if isinstance(v, torch.Tensor) else v) for k, v in model.state_dict().items()}
                g2 = torch.Generator().manual_seed(case["seed"] + 1)
                m2, _ = M.build_runnable(case["model"], g2)
                m2 = m2.to(dtype)
                quantize(m2, weights=wq, activations=aq, **opt_kw)
                if paramless_ln:
                    m2.to(dtype)
                if tied:
                    tie_tap(m2, case["seed"])
                r = cut(m2.load_state_dict, sd)
                if isinstance(r, Raised):
                    return out.fail(f"reload-raises:{r.type}/{wk}/{'frozen' if frozen else 'unfrozen'}", r.text)
            elif st_ == "to_cpu_copy":
                m2 = cut(lambda: copy.deepcopy(model).to("cpu"))
            else:
                m2 = cut(copy.deepcopy, model)
            if isinstance(m2, Raised):
                hist = "after-calibration-with-grad" if "calibrate-grad" in did else "plain"
                return out.fail(f"{st_.replace('continue_on_copy', 'deepcopy')}-raises:{m2.type}/{wk}/{hist}", f"{m2.text} ({'frozen' if frozen else 'unfrozen'}, steps so far {did})")
            y1 = run_probes(m2)
            if isinstance(y1, Raised):
                return out.fail(f"{st_}/copy-forward-raises:{y1.type}", y1.text)
            if not same_outputs(y0, y1):
                out.fail(f"{st_.replace('continue_on_copy', 'deepcopy')}/{wk}/output-changed", f"the copy's outputs differ from the source model's ({'frozen' if frozen else 'unfrozen'}, {case['wq']}, act {case['aq']})")
            if frozen:
                check_frozen_storage(out, m2, wq, st_.replace("continue_on_copy", "deepcopy"))
            if st_ == "continue_on_copy":
                model = m2
        elif st_ == "to_inplace":
            # moving the model itself (not a copy): model.to(device) / .cpu() after whatever ran before
            y0 = run_probes(model)
            if isinstance(y0, Raised):
                return out.fail(f"forward-raises:{y0.type}/{'frozen' if frozen else 'unfrozen'}", y0.text)
            how = (case["seed"] + len(did)) % 3
            r = cut(lambda: model.to("cpu") if how == 0 else (model.cpu() if how == 1 else model.to(torch.device("cpu"), non_blocking=True)))
            if isinstance(r, Raised):
                return out.fail(f"to-raises:{r.type}/{wk}/{'frozen' if frozen else 'unfrozen'}", f"{r.text} (steps so far {did})")
            y1 = run_probes(model)
            if isinstance(y1, Raised):
                return out.fail(f"to_inplace/forward-raises:{y1.type}", y1.text)
            if not same_outputs(y0, y1):
                out.fail(f"to_inplace/{wk}/output-changed", f"outputs differ after model.to(cpu) ({'frozen' if frozen else 'unfrozen'}, {case['wq']}, act {case['aq']})")
            if frozen:
                check_frozen_storage(out, model, wq, "to_inplace")
        elif st_ == "channels_last":
            if fam != "conv" or frozen or "freeze_one" in did:
                continue  # (memory-format changes of an already (partially) frozen model are not part of the property)
            r = cut(lambda: model.to(memory_format=torch.channels_last))
            if isinstance(r, Raised):
                return out.fail(f"channels_last-raises:{r.type}/{'frozen' if frozen else 'unfrozen'}", r.text)
        did.append(st_)
    if frozen and case.get("final") and not out.failures and not mixed:
        # the last thing an inference script does: move the frozen model inside torch.inference_mode() (where Tensor.to is not
        # decomposed and reaches the tensors as aten.to) and run it there. A final step: inference tensors cannot go back.
        y0 = run_probes(model)
        if isinstance(y0, Raised):
            return out.fail(f"forward-raises:{y0.type}/frozen", y0.text)
        how = case["final"]

        def move():
            with torch.inference_mode():
                if how == "cpu":
                    model.to("cpu")
                elif how == "cpu-dtype":
                    model.to("cpu", dtype)
                elif how == "cpu:0":
                    model.to(torch.device("cpu:0"))
                else:
                    model.to(dtype)

        r = cut(move)
        if isinstance(r, Raised):
            return out.fail(f"to-in-inference-mode-raises:{r.type}/{wk}", f"model.to({how}) of a frozen model inside torch.inference_mode(): {r.text}")
        with torch.inference_mode():
            y1 = run_probes(model)
        if isinstance(y1, Raised):
            return out.fail(f"to-in-inference-mode/forward-raises:{y1.type}", y1.text)
        if not same_outputs(y0, y1):
            out.fail(f"to-in-inference-mode/{wk}/output-changed", f"outputs differ after model.to({how}) inside inference_mode ({case['wq']}, act {case['aq']})")
        check_frozen_storage(out, model, wq, "to-in-inference-mode")
        did.append("to_in_inference_mode")
    fi = [i for i, s in enumerate(did) if s == "freeze"]
    out.nontrivial = bool(fi) and "forward" in did[: fi[0] + 1] + ["forward"] and (any(s in ("freeze_again", "deepcopy", "reload", "to_cpu_copy", "continue_on_copy", "freeze", "to_inplace") for s in did[fi[0] + 1 :]) or "freeze_one" in did[: fi[0]])
    return out


def run(ctx):
    drive(ctx, cases(), exec_history, max(1, int(ctx.params["n"] * ctx.params.get("scale", 1))))


SUBCHECKS = {"lifecycle": {"run": run, "execute": exec_history}}
