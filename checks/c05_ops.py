"""C05 — operations on quantized tensors equal the same operations on dequantized values (program machine)."""
from vlib.core import drive

from checks import qprog


def exec_program(case):
    return qprog.run_program(case, "c05")


def run(ctx):
    n = max(1, int(ctx.params["n"] * ctx.params.get("scale", 1)))
    drive(ctx, qprog.programs(max_steps=ctx.params.get("max_steps", 8)), exec_program, n)


def run_alias(ctx):
    """complete enumeration of the 3-step aliasing programs  source -> X -> copy_  for every operation X: after an in-place
    copy into the source or into X's result, whatever the float program leaves untouched must be untouched"""
    from vlib.core import enumerate_cases

    sources = [
        {"op": "src_qa", "a": 0, "b": 0, "c": 0, "shape": [2, 3], "seed": 5},      # per-tensor qint8 fp32
        {"op": "src_qa", "a": 1, "b": 1, "c": 0, "shape": [3, 2, 2], "seed": 6},   # per-tensor float8 fp16
        {"op": "src_qw", "a": 0, "b": 0, "c": 0, "shape": [3, 4], "seed": 7},      # per-axis (0) qint8
        {"op": "src_qw", "a": 2, "b": 4, "c": 0, "shape": [2, 3], "seed": 8},      # per-axis (-1) float8 bf16
    ]
    cases = []
    for src in sources:
        for opname in sorted(set(qprog.ALLOPS)):
            for a in (0, 1, 2):
                for dest in (0, 100):
                    for b in (1, 2):
                        cases.append({"steps": [src, {"op": opname, "s": [0, 1, 2], "a": a, "b": a + 1, "c": a},
                                                {"op": "copy_", "s": [dest, 0, 0], "a": 1, "b": b, "c": a}]})
    enumerate_cases(ctx, cases[ctx.shard :: ctx.nshards], exec_program,
                    exhaustive_name="aliasing programs source -> X -> copy_ for every operation X of the op tables x 4 source kinds x 3 argument variants x {copy into the source, copy into X's result} x 2 source dtypes")


def run_contract(ctx):
    """complete enumeration of the 2-step programs  source -> contraction  over the source kinds (per-tensor, per-axis along the
    first / the last axis; ranks 2 and 3; every 8-bit qtype) x every contraction of the op tables x every partner kind"""
    from vlib.core import enumerate_cases

    cases = []
    for rank, shape in ((2, [3, 4]), (3, [2, 3, 4]), (2, [4, 4]), (3, [2, 4, 4])):
        for q in range(3):
            for kind, b in (("src_qa", q), ("src_qw", q), ("src_qw", q + 3)):
                src = {"op": kind, "a": (q + rank) % 3, "b": b, "c": 0, "shape": shape, "seed": 11 + q}
                for opname in ("mm", "matmul2", "bmm", "matmul", "linear", "linear_nobias", "linear_nd"):
                    if (opname == "bmm") != (rank == 3) and opname in ("bmm", "mm", "matmul2", "linear", "linear_nobias"):
                        continue
                    for a in range(36):
                        for b2 in (0, 3):
                            for c in range(4):
                                cases.append({"steps": [src, {"op": opname, "s": [0, 1, 2], "a": a, "b": b2, "c": c}]})
    enumerate_cases(ctx, cases[ctx.shard :: ctx.nshards], exec_program,
                    exhaustive_name="contraction programs source -> {mm, matmul, bmm, linear, ...} for 9 quantized source kinds (per-tensor / first axis / last axis x 3 qtypes) x ranks 2, 3 x square / non-square x 36 partner kinds x 2 output widths x 4 call variants")


def run_pairs(ctx):
    from vlib.core import enumerate_cases

    cases = qprog.pair_cases()
    enumerate_cases(ctx, cases[ctx.shard :: ctx.nshards], exec_program,
                    exhaustive_name="pair programs source -> binary operation: 12 quantized source kinds x 16 operations x 36 companion modes x 8 argument variants")


SUBCHECKS = {"program": {"run": run, "execute": exec_program}, "alias": {"run": run_alias, "execute": exec_program},
             "contract": {"run": run_contract, "execute": exec_program}, "pairs": {"run": run_pairs, "execute": exec_program}}
