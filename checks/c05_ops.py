"""C05 — operations on quantized tensors equal the same operations on dequantized values (program machine)."""
from vlib.core import drive

from checks import qprog


def exec_program(case):
    return qprog.run_program(case, "c05")


def run(ctx):
    n = max(1, int(ctx.params["n"] * ctx.params.get("scale", 1)))
    drive(ctx, qprog.programs(max_steps=ctx.params.get("max_steps", 8)), exec_program, n)


def run_alias(ctx):
    """complete enumeration of the 3-step aliasing programs  source -> X -> copy_  for every operation X: after an in-place
    copy into the source or into X's result, whatever the float program leaves untouched must be untouched"""
    from vlib.core import enumerate_cases

    sources = [
        {"op": "src_qa", "a": 0, "b": 0, "c": 0, "shape": [2, 3], "seed": 5},      # per-tensor qint8 fp32
        {"op": "src_qa", "a": 1, "b": 1, "c": 0, "shape": [3, 2, 2], "seed": 6},   # per-tensor float8 fp16
        {"op": "src_qw", "a": 0, "b": 0, "c": 0, "shape": [3, 4], "seed": 7},      # per-axis (0) qint8
        {"op": "src_qw", "a": 2, "b": 4, "c": 0, "shape": [2, 3], "seed": 8},      # per-axis (-1) float8 bf16
    ]
    cases = []
    for src in sources:
        for opname in sorted(set(qprog.ALLOPS)):
            for a in (0, 1, 2):
                for dest in (0, 100):
                    for b in (1, 2):
                        cases.append({"steps": [src, {"op": opname, "s": [0, 1, 2], "a": a, "b": a + 1, "c": a},
                                                {"op": "copy_", "s": [dest, 0, 0], "a": 1, "b": b, "c": a}]})
    enumerate_cases(ctx, cases[ctx.shard :: ctx.nshards], exec_program,
                    exhaustive_name="aliasing programs source -> X -> copy_ for every operation X of the op tables x 4 source kinds x 3 argument variants x {copy into the source, copy into X's result} x 2 source dtypes")


SUBCHECKS = {"program": {"run": run, "execute": exec_program}, "alias": {"run": run_alias, "execute": exec_program}}
