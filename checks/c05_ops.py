"""C05 — operations on quantized tensors equal the same operations on dequantized values (program machine)."""
from vlib.core import drive

from checks import qprog


def exec_program(case):
    return qprog.run_program(case, "c05")


def run(ctx):
    n = max(1, int(ctx.params["n"] * ctx.params.get("scale", 1)))
    drive(ctx, qprog.programs(max_steps=ctx.params.get("max_steps", 8)), exec_program, n)


SUBCHECKS = {"program": {"run": run, "execute": exec_program}}
