"""C10 — state_dict save/load round trips reproduce the quantized model exactly (histories of save/load cycles)."""
import io
import os
import tempfile

import torch
from hypothesis import strategies as st

from vlib import gen
from vlib import oracle as O
from vlib.core import Outcome, Raised, cut, drive

from checks import models as M
from checks.c09_freeze import same_output

from optimum.quanto import Calibration, QBitsTensor, QBytesTensor, QTensor, freeze, quantize, requantize, safe_load, safe_save
from optimum.quanto.nn import QModuleMixin

ACT = {"none": None, "qint8": O.QT8["qint8"], "qfloat8_e4m3fn": O.QT8["qfloat8_e4m3fn"], "qfloat8_e5m2": O.QT8["qfloat8_e5m2"]}
SERIALIZERS = ["pickle", "weights_only", "safetensors"]
TARGETS = ["same", "same", "default", "requantize", "same-frozen", "same-assign", "other-qtype"]


@st.composite
def cases(draw):
    return {
        "model": draw(M.runnable(families=("mlp", "mlp-ln", "conv", "lin"), feats=[8, 33, 96, 128, 160, 192, 224, 256])),
        "wq": draw(st.sampled_from(sorted(O.QTALL))),
        "aq": draw(st.sampled_from(sorted(ACT))),
        "dtype": draw(gen.dtypes),
        "seed": draw(st.integers(0, 2**20)),
        "calibrate": draw(st.sampled_from(["no", "no", "streamline", "no-streamline"])),
        "frozen": draw(st.booleans()),
        "cycles": draw(st.lists(st.tuples(st.sampled_from(SERIALIZERS), st.sampled_from(TARGETS)), min_size=1, max_size=3)),
        "by_name": draw(st.integers(0, 3)) == 0,  # qtypes given by name ("qint4"), as the API documents
        "partial": draw(st.integers(0, 5)) == 0,  # only every other eligible module is quantized (quantize(model, modules=[...]))
    }


def eligible_subset(model, aq):
    """every other Linear / Conv2d (/ LayerNorm when activations are quantized) in definition order, or None when that is all of them"""
    kinds = (torch.nn.Linear, torch.nn.Conv2d) + ((torch.nn.LayerNorm,) if aq is not None else ())
    el = [m for m in model.modules() if isinstance(m, kinds)]
    return el[::2] if len(el) >= 2 else None


def teq(x, y):
    if x.dtype != y.dtype or x.shape != y.shape:
        return False
    if x.dtype in (torch.float8_e4m3fn, torch.float8_e5m2):
        x, y = x.view(torch.uint8), y.view(torch.uint8)
    if x.dtype.is_floating_point:
        return bool(((x == y) | (torch.isnan(x) & torch.isnan(y))).all())
    return torch.equal(x, y)


def roundtrip(sd, serializer):
    if serializer == "safetensors":
        with tempfile.TemporaryDirectory() as d:
            p = os.path.join(d, "m.safetensors")
            safe_save(sd, p)
            return safe_load(p)
    b = io.BytesIO()
    torch.save(sd, b)
    b.seek(0)
    return torch.load(b, weights_only=(serializer == "weights_only"))


def module_facts(m):
    w = m.weight
    facts = {"weight_qtype": m.weight_qtype, "activation_qtype": m.activation_qtype, "wclass": type(w.data if isinstance(w, torch.nn.Parameter) else w).__name__ if w is not None else None,
             "frozen": m.frozen if w is not None else None, "input_scale": m.input_scale.detach(), "output_scale": m.output_scale.detach()}
    if isinstance(w, QBytesTensor):
        facts.update(codes=w._data.detach(), scale=w._scale.detach(), axis=w.axis)
    elif isinstance(w, QBitsTensor):
        facts.update(codes=w._data.unpack(), scale=w._scale.detach(), zeropoint=w._zeropoint.detach(), axis=w.axis, group=w._group_size)
    elif w is not None:
        facts.update(float_weight=w.detach())
        # the quantized weight the module computes with (dynamic quantization of the float weight)
        if m.weight_qtype is not None:
            facts["effective_group"] = m.weight_group_size
    if getattr(m, "bias", None) is not None:
        facts["bias"] = m.bias.detach()
    return facts


def exec_history(case):
    with M.repeatable_kernels(case["model"]["fam"] == "conv"):
        return _exec_history(case)


def _exec_history(case):
    out = Outcome()
    g = torch.Generator().manual_seed(case["seed"])
    dtype = gen.DT[case["dtype"]]
    wq, aq = O.QTALL[case["wq"]], ACT[case["aq"]]
    model, shape = M.build_runnable(case["model"], g)
    model = model.to(dtype)
    # a probe batch large enough for two kernels computing the same layer to round differently somewhere
    # (two fp32-accumulating kernels disagree after rounding to bf16 on ~3e-4 of the outputs: thousands of outputs are needed)
    probe = M.batch(shape, dtype, g, bsz={"conv": 3, "lin": 256}.get(case["model"]["fam"], 40))
    with torch.no_grad():
        fy = cut(model, probe)
    fam = case["model"]["fam"]
    wk = "q8" if wq.bits == 8 else "qbits"
    fz = "frozen" if case["frozen"] else "unfrozen"
    has_ln = fam == "mlp-ln"
    out.fingerprint = [case["model"], case["wq"], case["aq"], case["dtype"], case["calibrate"], case["frozen"], case["cycles"], bool(case.get("partial")), bool(case.get("by_name"))]
    out.klass = [f"fam-{fam}", case["wq"], f"act-{case['aq']}", case["dtype"], fz, f"calib-{case['calibrate']}"] + [f"ser-{s}" for s, _ in case["cycles"]] + [f"target-{t}" for _, t in case["cycles"]]
    grouped = wq.bits < 8
    out.nontrivial = grouped or "float8" in case["wq"] or (has_ln and aq is not None) or not case["frozen"] or len(case["cycles"]) >= 2
    if isinstance(fy, Raised) or not bool(torch.isfinite(fy).all()):
        out.discard = True
        return out
    partial = bool(case.get("partial")) and eligible_subset(model, aq) is not None
    # what the caller passes: qtype objects, or their names
    wq_arg, aq_arg = (case["wq"], None if aq is None else aq.name) if case.get("by_name") else (wq, aq)
    if case.get("by_name"):
        out.klass.append("qtypes-by-name")
    if partial:
        out.klass.append("partially-quantized")
        r = cut(quantize, model, modules=eligible_subset(model, aq), weights=wq_arg, activations=aq_arg)
    else:
        r = cut(quantize, model, weights=wq_arg, activations=aq_arg)
    if isinstance(r, Raised):
        return out.fail(f"quantize-raises:{r.type}", r.text)
    paramless_ln = not case["model"].get("ln_affine", True)
    if paramless_ln:
        model.to(dtype)  # a LayerNorm without parameters has no dtype quantize() could read: the user casts its scale buffers afterwards
    if case["calibrate"] != "no" and aq is not None:
        with torch.no_grad():
            r = cut(lambda: _calib(model, M.batch(shape, dtype, g), case["calibrate"] == "streamline"))
        if isinstance(r, Raised):
            return out.fail(f"calibrate-raises:{r.type}", r.text)
    if case["frozen"]:
        r = cut(freeze, model)
        if isinstance(r, Raised):
            return out.fail(f"freeze-raises:{r.type}", r.text)
    current = model
    for ci, (ser, target) in enumerate(case["cycles"]):
        sd = cut(current.state_dict)
        if isinstance(sd, Raised):
            return out.fail(f"state_dict-raises:{sd.type}/{fz}", sd.text)
        # (1) only plain tensors and strings
        for k, v in sd.items():
            if type(v) not in (torch.Tensor, str):
                out.fail(f"state_dict/{fz}/{wk}/not-plain", f"state_dict[{k!r}] is a {type(v).__name__}")
                return out
        # (2) survives the serializer unchanged
        handed = dict(sd)  # the object the serializer is given: saving must not consume or alter it
        sd2 = cut(roundtrip, handed, ser)
        if isinstance(sd2, Raised):
            return out.fail(f"serialize/{ser}/raises:{sd2.type}", sd2.text)
        if set(handed) != set(sd) or any(handed[k] is not sd[k] for k in sd):
            out.fail(f"serialize/{ser}/argument-modified", f"saving changed the state_dict it was given: {sorted(set(sd) ^ set(handed))[:4]} missing/added")
            return out
        if set(sd2) != set(sd):
            out.fail(f"serialize/{ser}/keys", f"keys changed: {sorted(set(sd) ^ set(sd2))[:4]}")
            return out
        for k, v in sd.items():
            v2 = sd2[k]
            if isinstance(v, str):
                if v2 != v:
                    out.fail(f"serialize/{ser}/string-changed", f"{k}: {v!r} -> {v2!r}")
            elif not isinstance(v2, torch.Tensor) or not teq(v, v2):
                out.fail(f"serialize/{ser}/tensor-changed", f"{k} changed through {ser}")
        if out.failures:
            return out
        with torch.no_grad():
            y0 = cut(current, probe)
        if isinstance(y0, Raised):
            return out.fail(f"forward-raises:{y0.type}", y0.text)
        # the same batch handed over already quantized, with a scale of its own (as an upstream quantized module would)
        probe_q, yq0 = None, None
        if aq is not None and fam != "conv":
            from optimum.quanto import quantize_activation

            s_q = (probe.abs().max() / 90.0).to(dtype)
            probe_q = quantize_activation(probe, aq, torch.where(s_q > 0, s_q, torch.ones_like(s_q)))
            with torch.no_grad():
                yq0 = cut(current, probe_q)
        src_facts = {n: module_facts(m) for n, m in current.named_modules() if isinstance(m, QModuleMixin)}
        # ---- the target
        g2 = torch.Generator().manual_seed(case["seed"] + 17 + ci)
        tgt, _ = M.build_runnable(case["model"], g2)
        tgt = tgt.to(dtype)
        ttag = f"load/{target}/{fz}/{wk}"
        lnq = "+quantized-layernorm" if (has_ln and any(isinstance(m, torch.nn.LayerNorm) for m in current.modules() if isinstance(m, QModuleMixin))) else ""
        given = dict(sd2)
        if target == "requantize":
            r = cut(requantize, tgt, given)
        else:
            if target == "other-qtype":
                # a target quantized with ANOTHER weight qtype (same activations): loading restores the saved qtypes and
                # everything that follows from them (the automatic group size of 8-bit weights is "none")
                names = sorted(O.QTALL)
                owq = O.QTALL[names[(names.index(case["wq"]) + 1 + case["seed"] % (len(names) - 1)) % len(names)]]
                quantize(tgt, weights=owq, activations=aq, **({"modules": eligible_subset(tgt, aq)} if partial else {}))
            elif target in ("same", "same-frozen", "same-assign"):
                quantize(tgt, weights=wq_arg if ci % 2 == 0 else wq, activations=aq_arg if ci % 2 == 0 else aq, **({"modules": eligible_subset(tgt, aq)} if partial else {}))
                if target == "same-frozen" and fz == "frozen":
                    # a frozen model reloaded over an already frozen model of the same architecture
                    freeze(tgt)
            else:
                quantize(tgt)
            if paramless_ln:
                tgt.to(dtype)
            r = cut(tgt.load_state_dict, given, assign=True) if target == "same-assign" else cut(tgt.load_state_dict, given)
        if isinstance(r, Raised):
            if partial and target in ("default", "requantize") and r.type == "KeyError" and "weight_qtype" in r.text:
                # the target quantizes EVERY eligible module, the saved model only some: the loader of a module that was not
                # quantized in the saved model finds no '<name>.weight_qtype' entry
                return out.fail(f"load/{target}/raises:KeyError+partially-quantized", f"{r.text} ({case['wq']}, act {case['aq']}, {fam}, {fz})")
            if lnq and target in ("default", "requantize"):
                return out.fail(f"load/{target}/raises:{r.type}{lnq}", f"{r.text} ({case['wq']}, act {case['aq']}, {fam}, {fz})")
            return out.fail(f"{ttag}/raises:{r.type}", f"{r.text} ({case['wq']}, act {case['aq']}, {fam})")
        if set(given) != set(sd2) or any(given[k] is not sd2[k] for k in sd2):
            out.fail(f"load/{target}/argument-modified", f"loading consumed or altered the state_dict it was given ({sorted(set(given) ^ set(sd2))[:4]})")
        # (3) module by module
        tgt_mods = {n: m for n, m in tgt.named_modules() if isinstance(m, QModuleMixin)}
        if set(tgt_mods) != set(src_facts):
            out.fail(f"{ttag}/quantized-modules-differ{lnq}", f"source has quantized modules {sorted(src_facts)}, target {sorted(tgt_mods)}")
            return out
        for n, sf in src_facts.items():
            tf = module_facts(tgt_mods[n])
            for key in sf:
                a, b = sf[key], tf.get(key)
                ok = teq(a, b) if isinstance(a, torch.Tensor) and isinstance(b, torch.Tensor) else a == b
                if not ok:
                    what = key if key not in ("codes", "scale", "zeropoint", "float_weight") else f"weight-{key}"
                    out.fail(f"{ttag}/{what}", f"module {n}: {key} differs after loading ({_short(a)} -> {_short(b)}; {case['wq']}, act {case['aq']})")
        for n, p in list(tgt.named_parameters()) + list(tgt.named_buffers()):
            if p.device.type != "cpu":
                out.fail(f"{ttag}/device", f"{n} on {p.device}")
        # (4) outputs
        with torch.no_grad():
            y1 = cut(tgt, probe)
        if isinstance(y1, Raised):
            return out.fail(f"{ttag}/forward-raises:{y1.type}", y1.text)
        if probe_q is not None and not isinstance(yq0, Raised) and not out.failures:
            with torch.no_grad():
                yq1 = cut(tgt, probe_q)
            if isinstance(yq1, Raised) or not same_output(yq0, yq1):
                out.fail(f"{ttag}/output-differs-on-quantized-input", f"outputs on an already quantized batch differ after loading ({case['wq']}, act {case['aq']}, {fam})")
        if not same_output(y0, y1) and not out.failures:
            out.fail(f"{ttag}/output-differs", f"outputs of the loaded model differ from the saved model's ({case['wq']}, act {case['aq']}, calibrate {case['calibrate']}, {fam})")
        # (5) saving again gives an equal state_dict
        sd3 = cut(tgt.state_dict)
        if isinstance(sd3, Raised):
            return out.fail(f"{ttag}/state_dict-raises:{sd3.type}", sd3.text)
        if set(sd3) != set(sd):
            out.fail(f"{ttag}/resave-keys", f"keys of the re-saved state_dict differ: {sorted(set(sd) ^ set(sd3))[:4]}")
        else:
            for k, v in sd.items():
                v3 = sd3[k]
                same = (v3 == v) if isinstance(v, str) else (isinstance(v3, torch.Tensor) and teq(v, v3))
                if not same and not out.failures:
                    out.fail(f"{ttag}/resave-differs", f"{k} differs in the re-saved state_dict ({_short(v)} -> {_short(v3)})")
        if out.failures:
            return out
        if target != "same-assign":
            # the state_dict still belongs to the caller: what happens to the loaded model afterwards (an optimizer step, another
            # load) must not reach into it -- a second model built from the same dict is the saved model again
            keep = {k: v.clone() for k, v in given.items() if type(v) is torch.Tensor}
            touched = []
            with torch.no_grad():
                for n, t in list(tgt.named_parameters()) + list(tgt.named_buffers()):
                    if type(t.data) is torch.Tensor and t.dtype.is_floating_point and t.numel() and not t.is_inference():
                        touched.append((t, t.detach().clone()))
                        t.mul_(2.0).add_(1.0)
            bad = [k for k, v in keep.items() if not teq(v, given[k])]
            with torch.no_grad():
                for t, v in touched:
                    t.copy_(v)
            if bad:
                out.fail(f"load/{target}/model-shares-memory-with-state-dict", f"updating the loaded model in place changed the state_dict it was loaded from: {bad[:3]} ({case['wq']}, act {case['aq']}, {fz})")
                return out
        current = tgt
    return out


def _short(v):
    if isinstance(v, torch.Tensor):
        return f"tensor{tuple(v.shape)}[{str(v.dtype).replace('torch.', '')}]" if v.numel() > 1 else repr(v.reshape(-1)[0].item())
    return repr(v)


def _calib(model, x, streamline):
    with Calibration(streamline=streamline):
        model(x)


def run(ctx):
    drive(ctx, cases(), exec_history, max(1, int(ctx.params["n"] * ctx.params.get("scale", 1))))


def run_matrix(ctx):
    """complete cross product dtype x weight qtype x activations x frozen x serializer x target on single Linear layers whose sizes
    reach every CPU kernel route (in_features multiple of 16 or not, 40-token probe): one cycle each"""
    from vlib.core import enumerate_cases

    cs = []
    for dt in ("fp32", "fp16", "bf16"):
        for wq in sorted(O.QTALL):
            for aq in ("none", "qint8", "qfloat8_e4m3fn"):
                for frozen in (True, False):
                    for ser in SERIALIZERS:
                        for tgt in ("same", "default", "requantize"):
                            for (i, o) in ((256, 64), (33, 5), (160, 9)):
                                cs.append({"model": {"fam": "lin", "i": i, "h": 8, "o": o, "bias": True, "act": "none", "depth": 1}, "wq": wq, "aq": aq, "dtype": dt,
                                           "seed": ctx.seed * 100 + i + o, "calibrate": "no-streamline" if aq != "none" else "no", "frozen": frozen, "cycles": [[ser, tgt]]})
                            # a deeper, wider model: a one-ulp disagreement between two kernels in an early layer reaches many outputs
                            if wq in ("qfloat8_e5m2", "qint2") or aq == "qfloat8_e4m3fn" or (not frozen and tgt != "same"):
                                continue
                            cs.append({"model": {"fam": "mlp", "i": 256, "h": 512, "o": 128, "bias": True, "act": "gelu", "depth": 2}, "wq": wq, "aq": aq, "dtype": dt,
                                       "seed": ctx.seed * 100 + 7, "calibrate": "no-streamline" if aq != "none" else "no", "frozen": frozen, "cycles": [[ser, tgt]]})
    enumerate_cases(ctx, cs[ctx.shard :: ctx.nshards], exec_history,
                    exhaustive_name="dtype x 6 weight qtypes x 3 activation settings x frozen x 3 serializers x 3 targets x 3 Linear sizes, one save/load cycle")


SUBCHECKS = {"cycles": {"run": run, "execute": exec_history}, "matrix": {"run": run_matrix, "execute": exec_history}}
