"""C13 — calibration is scoped; inference and quantization are free of side effects.

Two drivers over the same interpreter (`World`): a Hypothesis RuleBasedStateMachine over global state (enter / exit /
exceptional exit / forwards / library calls), and a complete enumeration of exception points x exception kinds x
nesting for the exit paths.
"""
import copy

import torch
from hypothesis import strategies as st
from hypothesis.stateful import RuleBasedStateMachine, invariant, precondition, rule

from vlib import gen
from vlib import oracle as O
from vlib.core import Outcome, Raised, cut, drive_machine, enumerate_cases

import optimum.quanto.library.ops as qops
from optimum.quanto import Calibration, QTensor, absmax_scale, freeze, quantize, quantize_activation, quantize_weight
from optimum.quanto.nn import QModuleMixin
import torch.nn.modules.module as tmod


class HarnessFault(BaseException):
    """a BaseException that is not an Exception (like KeyboardInterrupt / GeneratorExit / CancelledError)"""


EXC = {"RuntimeError": RuntimeError, "ValueError": ValueError, "KeyboardInterrupt": KeyboardInterrupt, "GeneratorExit": GeneratorExit, "SystemExit": SystemExit,
       "HarnessFault": HarnessFault}
GLOBAL_DICTS = [n for n in dir(tmod) if n.startswith("_global_") and isinstance(getattr(tmod, n), dict)]


class Faulty(torch.nn.Module):
    def __init__(self):
        super().__init__()
        self.armed = None

    def forward(self, x):
        if self.armed is not None:
            raise EXC[self.armed]("injected fault")
        return x


def global_snapshot():
    s = {n: list(getattr(tmod, n).values()) for n in GLOBAL_DICTS}
    s["modes"] = list(torch.overrides._get_current_function_mode_stack())
    s["ext_enabled"] = qops._ext_enabled
    return s


def snap_equal(a, b):
    if a["ext_enabled"] != b["ext_enabled"] or len(a["modes"]) != len(b["modes"]) or any(x is not y for x, y in zip(a["modes"], b["modes"])):
        return False
    for n in GLOBAL_DICTS:
        if len(a[n]) != len(b[n]) or any(x is not y and x != y for x, y in zip(a[n], b[n])):
            return False
    return True


def snap_diff(a, b):
    d = []
    if a["ext_enabled"] != b["ext_enabled"]:
        d.append("extensions flag")
    if len(a["modes"]) != len(b["modes"]):
        d.append(f"torch-function mode stack {len(a['modes'])} -> {len(b['modes'])}")
    for n in GLOBAL_DICTS:
        if len(a[n]) != len(b[n]):
            d.append(f"{n} {len(a[n])} -> {len(b[n])} hooks")
    return "; ".join(d) or "same sizes, different objects"


def force_restore(base):
    """put the process back into the base state so that one leaked hook does not poison the following cases"""
    for n in GLOBAL_DICTS:
        dct = getattr(tmod, n)
        keep = base[n]
        for k in [k for k, v in dct.items() if not any(v is x or v == x for x in keep)]:
            del dct[k]
    while len(torch.overrides._get_current_function_mode_stack()) > len(base["modes"]):
        torch.overrides._pop_mode()
    qops._ext_enabled = base["ext_enabled"]


def model_state(model):
    sd = {}
    for k, v in model.state_dict().items():
        sd[k] = v.detach().clone() if isinstance(v, torch.Tensor) and not isinstance(v, QTensor) else (v.dequantize().detach().clone() if isinstance(v, QTensor) else v)
    flags = {}
    for n, m in model.named_modules():
        flags[n] = (m.training, getattr(m, "weight_qtype", None), getattr(m, "activation_qtype", None), getattr(m, "frozen", None), type(m))
    for n, p_ in model.named_parameters():
        flags["::param/" + n] = (type(p_.data).__name__, p_.requires_grad, p_.dtype, tuple(p_.shape))
    return sd, flags


def state_equal(a, b):
    (sa, fa), (sb, fb) = a, b
    if fa != fb or sa.keys() != sb.keys():
        return False
    for k in sa:
        x, y = sa[k], sb[k]
        if isinstance(x, torch.Tensor):
            if x.dtype != y.dtype or x.shape != y.shape or not torch.equal(x, y):
                return False
        elif x != y:
            return False
    return True


class InplaceScale(torch.nn.Module):
    """user code between two layers that rescales its input IN PLACE (h /= sqrt(d)): whatever that does to a quantized
    activation, it must not reach into the module that produced it (its output_scale buffer)"""

    def __init__(self, how):
        super().__init__()
        self.how = how

    def forward(self, x):
        if self.how == 0:
            x /= 2.0
        elif self.how == 1:
            x *= 0.5
        else:
            x = x.mul_(0.5)
        return x


def _mk(kind, seed, aq="qint8", wq="qint8"):
    g = torch.Generator().manual_seed(seed)
    mods = [torch.nn.Linear(6, 5), InplaceScale(seed % 3), torch.nn.ReLU(), torch.nn.Linear(5, 3)]
    if seed % 2:
        # a normalisation layer WITHOUT learnable parameters (DiT / OLMo style): a quantized module that has no weight at all
        mods.insert(3, torch.nn.LayerNorm(5, elementwise_affine=False))
    m = torch.nn.Sequential(*mods)
    with torch.no_grad():
        for p in m.parameters():
            p.copy_(torch.randn(p.shape, generator=g) * 0.4)
    if kind == "frozen-half":
        # a float16 model with quantized WEIGHTS only, frozen: what a memory-bound inference deployment looks like
        m = m.to(torch.float16)
        quantize(m, weights=O.QTALL[["qint8", "qfloat8_e4m3fn", "qint4"][seed % 3]])
        freeze(m)
        return m
    quantize(m, weights=O.QTALL[wq], activations=O.QT8[aq])
    if kind in ("calibrated", "frozen"):
        with torch.no_grad(), Calibration(streamline=False):
            m(torch.randn(4, 6, generator=g))
    if kind == "frozen":
        freeze(m)
    return m


def chain(n, k):
    """n quantized Linear layers with the harness-owned faulty module inserted at position k (0..n)"""
    g = torch.Generator().manual_seed(100 + n * 7 + k)
    mods = []
    for i in range(n + 1):
        if i == k:
            mods.append(Faulty())
        if i < n:
            lin = torch.nn.Linear(6, 6)
            with torch.no_grad():
                lin.weight.copy_(torch.randn(6, 6, generator=g) * 0.4)
            mods.append(lin)
    m = torch.nn.Sequential(*mods)
    quantize(m, weights=O.QTALL["qint8"], activations=O.QT8["qint8"])
    return m


class World:
    """the interpreter: real global state + real models, driven by explicit step dicts"""

    def __init__(self):
        self.base = global_snapshot()
        self.stack = []  # (ctx, snapshot before enter)
        self.models = {}
        self.steps = 0
        self.exc_exits = 0
        self.forwards_after_exc = 0
        self.kinds = []

    def model(self, kind, prep=0):
        """prep: how the user set the model up for inference — 0 as built, 1 .eval(), 2 requires_grad_(False), 3 both"""
        if (kind, prep) not in self.models:
            # models are built outside any calibration context of the history: building is not the subject
            m = _mk(kind, {"calibrated": 1, "frozen": 2, "unfrozen": 3, "frozen-half": 4 + prep}[kind])
            if prep & 1:
                m.eval()
            if prep & 2:
                m.requires_grad_(False)
            self.models[(kind, prep)] = m
        return self.models[(kind, prep)]

    def apply(self, step):
        """-> list of (signature, message)"""
        f = []
        op = step["op"]
        self.steps += 1
        self.kinds.append(op)
        if op == "enter":
            if len(self.stack) >= 3:
                return f
            before = global_snapshot()
            if step.get("same") and self.stack:
                ctx = self.stack[-1][0]  # the SAME Calibration object entered again before it was left (nested blocks)
            else:
                ctx = Calibration(momentum=step.get("m", 0.9), streamline=step.get("streamline", True), debug=step.get("debug", False))
            r = cut(ctx.__enter__)
            if isinstance(r, Raised):
                f.append((f"enter/raises:{r.type}", r.text))
                return f
            self.stack.append((ctx, before))
            now = global_snapshot()
            if len(now["modes"]) != len(before["modes"]) + 1:
                f.append(("enter/mode-not-pushed", "entering Calibration did not push exactly one torch-function mode"))
        elif op in ("exit", "exit_exc"):
            if not self.stack:
                return f
            ctx, before = self.stack.pop()
            exc = (None, None, None)
            where = "normal"
            chain_model = chain_flags = None
            if op == "exit_exc":
                self.exc_exits += 1
                kind = step["exc"]
                where = f"{kind}"
                try:
                    if step.get("where", -1) < 0:
                        raise EXC[kind]("injected in the with body")
                    n = step.get("n", 2)
                    m = chain(n, step["where"] % (n + 1))
                    bad = step.get("bad_batch")
                    for mod in m.modules():
                        if isinstance(mod, Faulty) and not bad:
                            mod.armed = kind
                    chain_model, chain_flags = m, model_state(m)[1]
                    with torch.no_grad():
                        # (bad batch: the fault is raised by a QUANTIZED module in the middle of its own forward -- a calibration batch
                        # with the wrong number of features)
                        m(torch.ones(2, 5 if bad else 6))
                    raise EXC[kind]("fault position not reached")
                except BaseException as e:  # noqa: BLE001
                    exc = (type(e), e, e.__traceback__)
            r = cut(ctx.__exit__, *exc)
            if isinstance(r, Raised) and r.exc is not exc[1]:
                f.append((f"exit/{'exception' if op == 'exit_exc' else 'normal'}/raises:{r.type}", r.text))
            now = global_snapshot()
            if not snap_equal(now, before):
                cls = "normal" if op == "exit" else ("Exception" if issubclass(EXC[step["exc"]], Exception) else "BaseException")
                f.append((f"exit/{cls}/global-state-not-restored", f"after leaving Calibration ({where}) : {snap_diff(before, now)}"))
                force_restore(before)
            if chain_model is not None and model_state(chain_model)[1] != chain_flags:
                # ... nor may the modules that were running when the exception came through keep anything but their calibrated scales
                fl = model_state(chain_model)[1]
                d = [f"{k_}: {chain_flags[k_]} -> {fl.get(k_)}" for k_ in chain_flags if fl.get(k_) != chain_flags[k_]][:2]
                f.append(("exit/exception/module-flags-changed", f"a model whose forward raised inside the context ({where}{', wrong batch shape' if step.get('bad_batch') else ''}) is left with other qtypes / flags: {d}"))
        elif op == "forward":
            prep = (step.get("seed", 0) // 3) % 4
            mkey = (step["model"], prep)
            m = self.model(step["model"], prep)
            g = torch.Generator().manual_seed(step.get("seed", 0))
            x = torch.randn(3, 6, generator=g) * [1.0, 5.0, 0.1][step.get("seed", 0) % 3]
            if step["model"] == "frozen-half":
                x = x.to(torch.float16)
            if self.stack:
                with torch.no_grad():
                    cut(m, x)  # inside a context anything may be calibrated; only the global invariants are checked
                self.models.pop(mkey, None)  # (its scales were legitimately moved: rebuild next time)
                return f
            if self.exc_exits:
                self.forwards_after_exc += 1
            before = model_state(m)
            with torch.no_grad():
                y1 = cut(m, x)
                y2 = cut(m, x)
            if isinstance(y1, Raised) or isinstance(y2, Raised):
                f.append((f"forward/{step['model']}/raises", str(y1)))
                return f
            d1 = y1.dequantize() if isinstance(y1, QTensor) else y1
            d2 = y2.dequantize() if isinstance(y2, QTensor) else y2
            if type(y1) is not type(y2) or not torch.equal(d1, d2):
                f.append((f"forward/{step['model']}/not-repeatable", "two evaluations of the same input outside any context differ"))
            if not state_equal(before, model_state(m)):
                f.append((f"forward/{step['model']}/state-changed", "a forward outside any Calibration context changed a parameter, buffer, scale, qtype or flag"))
                self.models.pop(mkey, None)
                return f
            # any input: a batch of another float dtype (accepted or refused, it must not leave a trace either)
            other = [torch.bfloat16, torch.float16, torch.float64][step.get("seed", 0) % 3]
            with torch.no_grad():
                cut(m, x.to(other))
                y3 = cut(m, x)
            if not state_equal(before, model_state(m)):
                f.append((f"forward/{step['model']}/state-changed-by-other-dtype-input", f"a forward on a {other} batch changed a parameter, buffer, scale, qtype or flag of the model"))
                self.models.pop(mkey, None)
            elif isinstance(y3, Raised) or not torch.equal(y3.dequantize() if isinstance(y3, QTensor) else y3, d1):
                f.append((f"forward/{step['model']}/not-repeatable", "evaluating the same input again after a batch of another dtype gives another result"))
            elif step["model"] in ("calibrated", "unfrozen") and step.get("seed", 0) % 2 == 0:
                # inference leaves no hidden state behind: after the float weights are rescaled through .data (pruning / clipping
                # code), this model and a FRESH model brought to the same state evaluate identically
                fresh = _mk(step["model"], {"calibrated": 1, "frozen": 2, "unfrozen": 3}[step["model"]])
                if prep & 1:
                    fresh.eval()
                if prep & 2:
                    fresh.requires_grad_(False)
                for mod in (m, fresh):
                    for p_ in mod.parameters():
                        if not isinstance(p_, QTensor) and p_.ndim >= 2:
                            p_.data.mul_(0.5)
                with torch.no_grad():
                    ya, yb = cut(m, x), cut(fresh, x)
                for p_ in m.parameters():
                    if not isinstance(p_, QTensor) and p_.ndim >= 2:
                        p_.data.mul_(2.0)
                da = ya.dequantize() if isinstance(ya, QTensor) else ya
                db = yb.dequantize() if isinstance(yb, QTensor) else yb
                if isinstance(ya, Raised) or isinstance(yb, Raised) or not torch.equal(da, db):
                    f.append((f"forward/{step['model']}/earlier-inference-changes-later-outputs", "after the same update of the float weights, the model that had run an inference before and a fresh model in the same state give different outputs"))
                    self.models.pop(mkey, None)
        elif op == "new_module":
            if self.stack:
                return f
            if self.exc_exits:
                self.forwards_after_exc += 1
            m = _mk("unfrozen", 50 + step.get("seed", 0), aq=["qint8", "qfloat8_e4m3fn"][step.get("seed", 0) % 2])
            with torch.no_grad():
                cut(m, torch.randn(2, 6, generator=torch.Generator().manual_seed(step.get("seed", 0))) * 3)
            for n, mod in m.named_modules():
                if isinstance(mod, QModuleMixin):
                    if float(mod.input_scale) != 1.0 or float(mod.output_scale) != 1.0 or mod.activation_qtype is None:
                        f.append(("new-module/calibrated-outside-context", f"a module created and run after the context has scales {float(mod.input_scale)}/{float(mod.output_scale)} activation_qtype {mod.activation_qtype}"))
                        break
        elif op == "libcall":
            f += self.libcall(step)
        elif op == "ext_block":
            before = qops._ext_enabled
            try:
                with qops.disable_extensions():
                    # a nested block (a helper that disables the extensions itself): leaving it must not re-enable them here
                    with qops.disable_extensions():
                        pass
                    if qops._ext_enabled:
                        f.append(("ext-block/nested-exit-re-enables", "leaving a nested disable_extensions() block re-enabled the extensions inside the outer block"))
                    if step.get("exc"):
                        raise EXC[step["exc"]]("injected in a disable_extensions block")
            except BaseException:  # noqa: BLE001
                pass
            if qops._ext_enabled != before:
                f.append(("ext-block/flag-not-restored", f"disable_extensions() left extensions {'disabled' if not qops._ext_enabled else 'enabled'} after {'an exception' if step.get('exc') else 'a normal exit'}"))
                qops._ext_enabled = before
        return f

    def libcall(self, step):
        f = []
        fn = step["fn"]
        g = torch.Generator().manual_seed(step.get("seed", 0))
        dtype = [torch.float32, torch.float16, torch.bfloat16][step.get("seed", 0) % 3]
        t = (torch.randn(4, 8, generator=g) * 2).to(dtype)
        keep, ver = t.clone(), t._version
        qn = sorted(O.QTALL)[step.get("seed", 0) % 5]
        if fn == "quantize_weight":
            r = cut(quantize_weight, t, O.QTALL[qn], [0, -1][step.get("seed", 0) % 2], None)
        elif fn == "quantize_activation":
            q8 = O.QT8[sorted(O.QT8)[step.get("seed", 0) % 3]]
            r = cut(quantize_activation, t, q8, torch.tensor(0.05, dtype=dtype))
        elif fn == "absmax_scale":
            r = cut(absmax_scale, t, O.QT8["qint8"], [None, 0, -1][step.get("seed", 0) % 3])
        elif fn == "dequantize_lowbit":
            # runs the unpack kernel (optimized one if it can be loaded, python fallback otherwise): no trace either way
            r = cut(lambda: quantize_weight(t, O.QTALL[["qint4", "qint2"][step.get("seed", 0) % 2]], 0, None).dequantize())
        elif fn == "unpack_fallback":
            # a call the optimized kernel refuses (int8 payload) and the python kernel serves: a handled fault, not a state change
            r = cut(lambda: torch.ops.quanto.unpack(torch.randint(0, 16, (4, 8), generator=g).to(torch.int8), 4))
            if isinstance(r, Raised):
                r = None  # (whether this particular call is served is not C13's subject)
        elif fn in ("quantize", "freeze"):
            m = torch.nn.Sequential(torch.nn.Linear(8, 4), torch.nn.LayerNorm(4)).to(dtype)
            params = [(n, p, p.detach().clone(), p._version) for n, p in m.named_parameters()]
            r = cut(quantize, m, weights=O.QTALL[qn], activations=O.QT8["qint8"] if step.get("seed", 0) % 2 else None)
            if fn == "freeze" and not isinstance(r, Raised):
                floats = [(n, p, p.detach().clone(), p._version) for n, p in m.named_parameters() if not isinstance(p, QTensor)]
                r = cut(freeze, m)
                for n, p, val, v in floats:
                    if not torch.equal(p.detach(), val) or p._version != v:
                        f.append(("libcall/freeze/modified-float-parameter", f"freeze() modified the float tensor of {n}"))
            for n, p, val, v in params:
                if not torch.equal(p.detach(), val) or p._version != v:
                    f.append(("libcall/quantize/modified-source-parameter", f"quantize() modified the storage of the float parameter {n} it read"))
        else:
            return f
        if isinstance(r, Raised):
            f.append((f"libcall/{fn}/raises:{r.type}", r.text))
        if not torch.equal(t, keep) or t._version != ver:
            f.append((f"libcall/{fn}/modified-input", f"{fn} modified the float tensor it was given (version {ver} -> {t._version})"))
        return f

    def invariants(self):
        f = []
        now = global_snapshot()
        if not self.stack:
            if not snap_equal(now, self.base):
                f.append(("invariant/global-state-leaked", f"no Calibration context is open but {snap_diff(self.base, now)}"))
                force_restore(self.base)
        else:
            depth = len(self.stack)
            if len(now["modes"]) != len(self.base["modes"]) + depth:
                f.append(("invariant/mode-stack-depth", f"{depth} contexts open, mode stack grew by {len(now['modes']) - len(self.base['modes'])}"))
        return f

    def close(self):
        f = []
        while self.stack:
            ctx, before = self.stack.pop()
            cut(ctx.__exit__, None, None, None)
        if not snap_equal(global_snapshot(), self.base):
            force_restore(self.base)
        return f

    def outcome(self, trace):
        out = Outcome()
        out.nontrivial = self.exc_exits > 0 and self.forwards_after_exc > 0
        out.fingerprint = [(s["op"], s.get("exc"), s.get("where"), s.get("n"), s.get("streamline"), s.get("model"), s.get("fn"), s.get("same")) for s in trace]
        out.klass = [f"op-{k}" for k in set(self.kinds)] + [f"exc-exits{min(self.exc_exits, 3)}"]
        return out


def exec_history(case):
    """replay / enumeration entry: run an explicit history"""
    w = World()
    out_f = []
    try:
        for step in case["steps"]:
            out_f += w.apply(step)
            out_f += w.invariants()
    finally:
        w.close()
    out = w.outcome(case["steps"])
    seen = set()
    for s, m in out_f:
        if s not in seen:
            seen.add(s)
            out.fail(s, m)
    return out


# ----------------------------------------------------------------------------- Hypothesis stateful machine

def make_machine(hook):
    class CalibrationScopes(RuleBasedStateMachine):
        def __init__(self):
            super().__init__()
            hook.begin()
            self.w = World()
            self.trace = []

        def do(self, step):
            import contextlib, io

            self.trace.append(step)
            with contextlib.redirect_stdout(io.StringIO()):  # debug=True contexts print
                fails = self.w.apply(step) + self.w.invariants()
            hook.step(self.trace, fails)

        @precondition(lambda self: len(self.w.stack) < 3)
        @rule(m=st.sampled_from([0.0, 0.5, 0.9]), streamline=st.booleans(), debug=st.sampled_from([False, False, False, True]))
        def enter(self, m, streamline, debug):
            self.do({"op": "enter", "m": m, "streamline": streamline, "debug": debug})

        @precondition(lambda self: 0 < len(self.w.stack) < 3)
        @rule()
        def enter_same_again(self):
            self.do({"op": "enter", "same": True})

        @precondition(lambda self: len(self.w.stack) > 0)
        @rule()
        def exit_normally(self):
            self.do({"op": "exit"})

        @precondition(lambda self: len(self.w.stack) > 0)
        @rule(exc=st.sampled_from(sorted(EXC)), where=st.integers(-1, 3), n=st.integers(1, 3), bad=st.booleans())
        def exit_by_exception(self, exc, where, n, bad):
            self.do({"op": "exit_exc", "exc": exc, "where": where, "n": n, "bad_batch": bad and where >= 0})

        @rule(model=st.sampled_from(["calibrated", "frozen", "unfrozen", "frozen-half"]), seed=st.integers(0, 50))
        def forward(self, model, seed):
            self.do({"op": "forward", "model": model, "seed": seed})

        @rule(fn=st.sampled_from(["quantize", "freeze", "quantize_weight", "quantize_activation", "absmax_scale", "dequantize_lowbit", "unpack_fallback"]), seed=st.integers(0, 50))
        def library_call(self, fn, seed):
            self.do({"op": "libcall", "fn": fn, "seed": seed})

        @rule(exc=st.sampled_from([None, "RuntimeError", "KeyboardInterrupt"]))
        def extensions_disabled_block(self, exc):
            self.do({"op": "ext_block", "exc": exc})

        @precondition(lambda self: len(self.w.stack) == 0)
        @rule(seed=st.integers(0, 20))
        def make_new_module_and_run(self, seed):
            self.do({"op": "new_module", "seed": seed})

        def teardown(self):
            self.w.close()
            hook.finish(self.trace, self.w.outcome(self.trace))

    return CalibrationScopes


def run_machine(ctx):
    n = max(1, int(ctx.params["n"] * ctx.params.get("scale", 1)))
    drive_machine(ctx, make_machine, n, ctx.params.get("steps", 12))


# ----------------------------------------------------------------------------- complete enumeration of the exit paths

def run_faults(ctx):
    cases = []
    maxn = ctx.params.get("maxn", 3)
    for depth in (1, 2):
        for streamline in (True, False):
            for exc in sorted(EXC):
                for n in range(1, maxn + 1):
                    for where in [-1] + list(range(n + 1)):
                        for victim in ("calibrated", "frozen", "unfrozen"):
                            steps = [{"op": "enter", "m": 0.5, "streamline": streamline, "same": bool(k and (n + where) % 2)} for k in range(depth)]
                            steps.append({"op": "exit_exc", "exc": exc, "where": where, "n": n, "bad_batch": where >= 0 and victim == "unfrozen"})
                            steps += [{"op": "exit"}] * (depth - 1)
                            steps += [{"op": "forward", "model": victim, "seed": n + where + 1}, {"op": "new_module", "seed": where + 1}]
                            if victim == "frozen":
                                steps.append({"op": "ext_block", "exc": exc if where % 2 else None})
                            cases.append({"steps": steps})
    enumerate_cases(ctx, cases[ctx.shard :: ctx.nshards], exec_history,
                    exhaustive_name=f"exception kinds (3 Exception + 3 BaseException) x fault at every module position of chains 1..{maxn} or in the with body x nesting 1-2 x streamline x victim model")


# ----------------------------------------------------------------------------- library calls never modify what they read

from checks import common_rows as R  # noqa: E402
from vlib.core import drive  # noqa: E402
from optimum.quanto import AbsmaxOptimizer, MaxOptimizer  # noqa: E402
from optimum.quanto.tensor.quantizers import AffineQuantizer, SymmetricQuantizer  # noqa: E402

PURE_FNS = ["quantize_weight", "quantize_weight", "quantize_activation", "symmetric", "affine", "absmax_scale", "optimizer", "dequantize", "requantize"]


@st.composite
def purity_cases(draw):
    c = draw(R.row_tensor_cases(qtypes=tuple(sorted(O.QTALL)), min_rank=1))
    c["fn"] = draw(st.sampled_from(PURE_FNS))
    c["own_group"] = draw(st.integers(0, 3)) == 0  # group size == per-axis element count (one group per index: views instead of copies)
    c["unit_dim"] = draw(st.integers(0, 5)) == 0  # a dimension of size one at the axis or at the other end
    return c


def exec_purity(case):
    """Every public quantization entry point, on every configuration, leaves the float tensor it reads bitwise unchanged
    (values and version counter), and so do dequantize() and re-quantization for the quantized tensor they read; two
    evaluations on the same input are bit-identical."""
    out = Outcome()
    case = dict(case)
    shape = list(case["shape"])
    if case["unit_dim"] and len(shape) >= 2:
        shape[0 if case["seed"] % 2 else -1] = 1
        case["shape"] = shape
        case["group_size"] = None
    x, gid, ng, names = R.build(case)
    qtype = O.QTALL[case["qtype"]]
    axis, gs = case["axis"], case["group_size"]
    if len(shape) >= 2 and qtype.bits < 8 and case["own_group"]:
        gs = x.numel() // shape[axis]
    if qtype.bits == 8:
        gs = None
    fn = case["fn"]
    keep, ver = x.clone(), x._version
    base_keep = x._base.clone() if x._base is not None else None
    tag = f"purity/{fn}"
    out.fingerprint = [fn, case["qtype"], case["dtype"], shape, axis, gs, case.get("mem", ["contig"])[0]]
    out.klass = [fn, case["qtype"], f"axis{axis}", "grouped" if gs else "ungrouped", "layout-" + case.get("mem", ["contig"])[0], "own-group" if gs and len(shape) >= 2 and gs == x.numel() // shape[axis] else "other"]
    out.nontrivial = gs is not None or case.get("mem", ["contig"])[0] != "contig" or axis == -1

    # scale / zero-point tensors handed to the entry points are arguments too: ordinary, subnormal, tiny and null-ish values
    tiny = torch.finfo(x.dtype).tiny
    sval = [0.05, 0.05, tiny / 4, tiny, 1e-30 if x.dtype != torch.float16 else 6e-8, 3.0][case["seed"] % 6]
    given = {"scale": torch.tensor(sval, dtype=x.dtype), "factor": [1.0, 1.0, 2.0**-20, 1.0][case["seed"] % 4]}
    given["scale_keep"] = given["scale"].clone()

    def call():
        if fn == "quantize_weight":
            return quantize_weight(x, qtype, axis, gs)
        if fn == "quantize_activation":
            q8 = qtype if qtype.bits == 8 else O.QT8["qint8"]
            return quantize_activation(x, q8, given["scale"])
        if fn == "absmax_scale":
            return absmax_scale(x, qtype if qtype.bits == 8 else O.QT8["qint8"], [None, 0, -1][case["seed"] % 3])
        if fn == "optimizer":
            if qtype.bits == 8:
                return AbsmaxOptimizer()(x, qtype.bits, axis)
            return MaxOptimizer()(x, qtype.bits, axis, gs)
        if fn == "symmetric":
            q8 = qtype if qtype.bits == 8 else O.QT8["qint8"]
            if "sym" not in given:
                given["sym"] = AbsmaxOptimizer()(x, 8, axis) * given["factor"]
                given["sym_keep"] = given["sym"].clone()
            return SymmetricQuantizer.apply(x, q8, axis, given["sym"])
        if fn == "affine":
            ql = qtype if qtype.bits < 8 else O.QTALL["qint4"]
            g2 = gs if qtype.bits < 8 else None
            if "aff" not in given:
                sc, zp = MaxOptimizer()(x, ql.bits, axis, g2)
                given["aff"] = (sc * given["factor"], zp)
                given["aff_keep"] = (given["aff"][0].clone(), zp.clone())
            return AffineQuantizer.apply(x, ql, axis, g2, *given["aff"])
        q = quantize_weight(x, qtype, axis, gs)
        if fn == "dequantize":
            return q.dequantize()
        d = q.dequantize()
        return quantize_weight(d, qtype, axis, gs)

    r = cut(call)
    if isinstance(r, Raised):
        if r.type != "ValueError":
            out.fail(f"{tag}/raises:{r.type}", r.text)
        out.nontrivial = False
    changed = not torch.equal(x.view(torch.int16 if x.element_size() == 2 else torch.int32) if x.is_contiguous() else x.nan_to_num(), keep.view(torch.int16 if keep.element_size() == 2 else torch.int32) if x.is_contiguous() else keep.nan_to_num())
    if changed or x._version != ver:
        which = "own-group" if gs and len(shape) >= 2 and gs == x.numel() // shape[axis] else ("unit-dim" if 1 in shape else case.get("mem", ["contig"])[0])
        out.fail(f"{tag}/modified-input/{'values' if changed else 'version-counter'}", f"{fn}({case['qtype']}, axis {axis}, group {gs}) on a {which} tensor {shape} modified the float tensor it was given")
    def _bits(t):
        return t.view(torch.int16 if t.element_size() == 2 else torch.int32) if t.is_floating_point() else t

    if not torch.equal(_bits(given["scale"]), _bits(given["scale_keep"])):
        out.fail(f"{tag}/modified-scale-argument", f"{fn} rewrote the scale tensor it was given ({given['scale_keep'].item()!r} -> {given['scale'].item()!r})")
    if "sym" in given and not torch.equal(_bits(given["sym"]), _bits(given["sym_keep"])):
        out.fail(f"{tag}/modified-scale-argument", f"{fn} rewrote the per-axis scale tensor it was given")
    if "aff" in given and not (torch.equal(_bits(given["aff"][0]), _bits(given["aff_keep"][0])) and torch.equal(given["aff"][1], given["aff_keep"][1])):
        out.fail(f"{tag}/modified-scale-argument", f"{fn} rewrote the scale / zero-point tensors it was given")
    if base_keep is not None and not torch.equal(x._base.nan_to_num(), base_keep.nan_to_num()):
        out.fail(f"{tag}/modified-input/base-storage", f"{fn} wrote into the storage the source is a view of")
    if not isinstance(r, Raised) and not out.failures:
        r2 = cut(call)
        same = True
        if isinstance(r2, Raised):
            same = False
        else:
            a = r if isinstance(r, tuple) else (r,)
            b = r2 if isinstance(r2, tuple) else (r2,)
            for u, v in zip(a, b):
                du = u.dequantize() if isinstance(u, QTensor) else u
                dv = v.dequantize() if isinstance(v, QTensor) else v
                if not torch.equal(du.nan_to_num(), dv.nan_to_num()):
                    same = False
        if not same:
            out.fail(f"{tag}/second-evaluation-differs", f"{fn}({case['qtype']}, axis {axis}, group {gs}) gives another result the second time on the same input")
    return out


def run_purity(ctx):
    drive(ctx, purity_cases(), exec_purity, max(1, int(ctx.params["n"] * ctx.params.get("scale", 1))))


SUBCHECKS = {"faults": {"run": run_faults, "execute": exec_history}, "machine": {"run": run_machine, "execute": exec_history},
             "purity": {"run": run_purity, "execute": exec_purity}}
