"""Model generators shared by C08-C13: arbitrary module trees (structure) and runnable models (function, histories)."""
import torch
from hypothesis import strategies as st

from vlib import gen

PMODES = ["zeros", "reflect", "replicate", "circular"]


import contextlib


@contextlib.contextmanager
def repeatable_kernels(uses_conv):
    """oneDNN's bfloat16 convolution returns NaN / unrepeatable values for some finite inputs in this torch build (seen on a
    plain float Conv2d, independent of quanto). Cases that run convolutions switch oneDNN off so that float references and
    bitwise before/after comparisons are repeatable; everything else runs with the platform's default kernels."""
    if uses_conv:
        with torch.backends.mkldnn.flags(enabled=False):
            yield
    else:
        yield


class Holder(torch.nn.Module):
    """custom container with attribute children"""

    def __init__(self, children):
        super().__init__()
        for i, c in enumerate(children):
            setattr(self, f"child{i}", c)


class BareLeaf(torch.nn.Module):
    """custom leaf owning a bare Parameter and a buffer"""

    def __init__(self, n):
        super().__init__()
        self.p = torch.nn.Parameter(torch.arange(n, dtype=torch.float32) / 7)
        self.register_buffer("b", torch.ones(n))

    def forward(self, x):
        return x


class NPScale(torch.nn.Module):
    """user module holding a NON-persistent buffer (a rotary table, a mask): part of the model, absent from its state_dict"""

    def __init__(self, n):
        super().__init__()
        self.register_buffer("k", 0.5 + torch.arange(n, dtype=torch.float32) / max(n, 1), persistent=False)

    def forward(self, x):
        return x * self.k.to(x.dtype)


class MyLinear(torch.nn.Linear):
    """a user subclass of Linear: still eligible (isinstance)"""


@st.composite
def conv_hparams(draw, cin=None):
    groups = draw(st.sampled_from([1, 1, 2, 3]))
    ci = (cin or draw(st.integers(1, 4))) if groups == 1 else groups * draw(st.integers(1, 2))
    if cin is not None and groups > 1:
        groups = 1
        ci = cin
    co = groups * draw(st.integers(1, 3))
    k = draw(st.sampled_from([1, 2, 3, (1, 3), (3, 2)]))
    stride = draw(st.sampled_from([1, 1, 2, (2, 1)]))
    dilation = draw(st.sampled_from([1, 1, 2]))
    pmode = draw(st.sampled_from(PMODES))
    padding = draw(st.sampled_from([0, 1, (1, 0), "same", "valid", 2]))
    if padding == "same" and stride != 1:
        stride = 1
    return {"t": "conv", "ci": ci, "co": co, "k": k, "stride": stride, "padding": padding, "dilation": dilation, "groups": groups, "pmode": pmode,
            "bias": draw(st.booleans())}


@st.composite
def leaves(draw):
    kind = draw(st.sampled_from(["linear", "linear", "conv", "ln", "mylinear", "relu", "gelu", "tanh", "flatten", "identity", "embedding", "bn", "bare", "dropout", "tied", "shared"]))
    if kind == "shared":
        # ONE module registered under two names (a layer applied twice), directly or through a shared container
        return {"t": "shared", "i": draw(st.integers(1, 6)), "bias": draw(st.booleans()), "via": draw(st.sampled_from(["leaf", "container", "leaf-apart"]))}
    if kind == "tied":
        # two distinct modules sharing one Parameter (tied embeddings / tied projections)
        return {"t": "tied", "i": draw(st.integers(1, 6)), "o": draw(st.integers(1, 6)), "bias": draw(st.booleans()), "with": draw(st.sampled_from(["embedding", "linear", "embedding-after"]))}
    if kind in ("linear", "mylinear"):
        return {"t": kind, "i": draw(st.integers(1, 6)), "o": draw(st.integers(1, 6)), "bias": draw(st.booleans())}
    if kind == "conv":
        return draw(conv_hparams())
    if kind == "ln":
        shape = draw(st.lists(st.integers(1, 5), min_size=1, max_size=2))
        affine = draw(st.booleans())
        return {"t": "ln", "shape": shape, "affine": affine, "bias": draw(st.booleans()) if affine else True, "eps": draw(st.sampled_from([1e-5, 1e-3]))}
    if kind == "embedding":
        return {"t": "embedding", "n": draw(st.integers(2, 5)), "d": draw(st.integers(1, 4))}
    if kind == "bn":
        return {"t": "bn", "n": draw(st.integers(1, 4))}
    if kind == "bare":
        return {"t": "bare", "n": draw(st.integers(1, 4))}
    return {"t": kind}


def trees(max_leaves=8):
    return st.recursive(
        leaves(),
        lambda ch: st.builds(lambda t, c: {"t": t, "c": c}, st.sampled_from(["seq", "mlist", "mdict", "holder"]), st.lists(ch, min_size=1, max_size=3)),
        max_leaves=max_leaves,
    )


def build_tree(node, g):
    """recipe -> module (deterministic parameter values from the generator g)"""
    t = node["t"]
    if t in ("seq", "mlist", "mdict", "holder"):
        kids = [build_tree(c, g) for c in node["c"]]
        if t == "seq":
            return torch.nn.Sequential(*kids)
        if t == "mlist":
            return torch.nn.ModuleList(kids)
        if t == "mdict":
            return torch.nn.ModuleDict({f"k{i}": k for i, k in enumerate(kids)})
        return Holder(kids)
    if t in ("linear", "mylinear"):
        m = (torch.nn.Linear if t == "linear" else MyLinear)(node["i"], node["o"], bias=node["bias"])
    elif t == "conv":
        m = torch.nn.Conv2d(node["ci"], node["co"], _tup(node["k"]), stride=_tup(node["stride"]), padding=_tup(node["padding"]), dilation=_tup(node["dilation"]),
                            groups=node["groups"], bias=node["bias"], padding_mode=node["pmode"])
    elif t == "ln":
        m = torch.nn.LayerNorm(node["shape"], eps=node["eps"], elementwise_affine=node["affine"], bias=node["bias"])
    elif t == "embedding":
        m = torch.nn.Embedding(node["n"], node["d"])
    elif t == "bn":
        m = torch.nn.BatchNorm2d(node["n"])
    elif t == "bare":
        return BareLeaf(node["n"])
    elif t == "shared":
        lin = torch.nn.Linear(node["i"], node["i"], bias=node["bias"])
        with torch.no_grad():
            for p in lin.parameters():
                p.copy_(torch.randn(p.shape, generator=g) * 0.5)
        if node["via"] == "leaf":
            return Holder([lin, lin])
        if node["via"] == "leaf-apart":
            return Holder([lin, torch.nn.Sequential(torch.nn.ReLU(), lin)])
        box = torch.nn.Sequential(lin, torch.nn.Tanh())
        return Holder([box, box])
    elif t == "tied":
        lin = torch.nn.Linear(node["i"], node["o"], bias=node["bias"])
        other = torch.nn.Linear(node["i"], node["o"], bias=False) if node["with"] == "linear" else torch.nn.Embedding(node["o"], node["i"])
        with torch.no_grad():
            for p in lin.parameters():
                p.copy_(torch.randn(p.shape, generator=g) * 0.5)
        other.weight = lin.weight
        return Holder([lin, other] if node["with"] == "embedding-after" else [other, lin])
    else:
        m = {"relu": torch.nn.ReLU, "gelu": torch.nn.GELU, "tanh": torch.nn.Tanh, "flatten": torch.nn.Flatten, "identity": torch.nn.Identity, "dropout": torch.nn.Dropout}[t]()
    with torch.no_grad():
        for p in m.parameters():
            p.copy_(torch.randn(p.shape, generator=g) * 0.5)
    return m


def _tup(v):
    return tuple(v) if isinstance(v, list) else v


def wrap_root(node):
    """the root must be a container: in-place replacement of the object the caller holds is impossible"""
    if node["t"] in ("seq", "mlist", "mdict", "holder"):
        return node
    return {"t": "seq", "c": [node]}


# ----------------------------------------------------------------------------- runnable models

@st.composite
def runnable(draw, families=("mlp", "mlp-ln", "conv", "lin"), feats=None):
    fam = draw(st.sampled_from(list(families)))
    if fam in ("mlp", "mlp-ln", "lin"):
        feats = feats or [3, 8, 16, 33, 64, 96, 128, 160]
        r = {"fam": fam, "i": draw(st.sampled_from(feats)), "h": draw(st.sampled_from([4, 8, 17, 32])), "o": draw(st.integers(1, 9)), "bias": draw(st.booleans()),
             "act": draw(st.sampled_from(["relu", "gelu", "none"])), "depth": draw(st.integers(1, 3)), "npbuf": draw(st.sampled_from([False, False, True]))}
        if fam == "mlp-ln":
            # LayerNorm hyper-parameters: without affine parameters the quantized module has no weight at all (only scale buffers)
            r["ln_affine"] = draw(st.sampled_from([True, True, False]))
            r["ln_bias"] = draw(st.booleans())
        return r
    hp = draw(conv_hparams())
    hp2 = draw(conv_hparams(cin=hp["co"]))
    return {"fam": "conv", "c1": hp, "c2": hp2 if draw(st.booleans()) else None, "hw": draw(st.integers(5, 8))}


def build_runnable(r, g):
    """-> (model, input shape without the batch dim)"""
    fam = r["fam"]
    if fam == "conv":
        mods = [build_tree(r["c1"], g), torch.nn.ReLU()]
        if r["c2"] is not None:
            mods.append(build_tree(r["c2"], g))
        return torch.nn.Sequential(*mods), (r["c1"]["ci"], r["hw"], r["hw"])
    acts = {"relu": torch.nn.ReLU, "gelu": torch.nn.GELU, "none": torch.nn.Identity}
    if fam == "lin":
        return torch.nn.Sequential(build_tree({"t": "linear", "i": r["i"], "o": r["o"], "bias": r["bias"]}, g)), (r["i"],)
    mods = []
    d = r["i"]
    for k in range(r["depth"]):
        if fam == "mlp-ln":
            mods.append(build_tree({"t": "ln", "shape": [d], "affine": r.get("ln_affine", True), "bias": r.get("ln_bias", True) if r.get("ln_affine", True) else True, "eps": 1e-5}, g))
        mods.append(build_tree({"t": "linear", "i": d, "o": r["h"], "bias": r["bias"]}, g))
        if r.get("npbuf") and k == 0:
            np0 = NPScale(r["h"])
            mods.append(np0)
        elif r.get("npbuf") and k == 1:
            # the SAME buffer object registered in a second module (one rotary table shared by every layer)
            np1 = NPScale(r["h"])
            np1._buffers["k"] = np0.k
            mods.append(np1)
        mods.append(acts[r["act"]]())
        d = r["h"]
    mods.append(build_tree({"t": "linear", "i": d, "o": r["o"], "bias": r["bias"]}, g))
    return torch.nn.Sequential(*mods), (r["i"],)


def batch(shape, dtype, g, bsz=3, mag=1.0):
    return gen.clamp_finite(torch.randn((bsz,) + tuple(shape), generator=g, dtype=torch.float64) * mag, dtype)


# ----------------------------------------------------------------------------- user-supplied range optimizers

def custom_optimizer(qtype):
    """a user subclass of the exported optimizer base classes that chooses OTHER scales than the default one (a clipping
    optimizer): whatever quantizes the weights of a module created with it must use it, dynamically and on freeze"""
    from optimum.quanto import AbsmaxOptimizer, AffineOptimizer, MaxOptimizer, SymmetricOptimizer

    if qtype.bits == 8:
        class ClippedAbsmax(SymmetricOptimizer):
            def optimize(self, base, bits, axis=None):
                return (AbsmaxOptimizer().optimize(base, bits, axis) * 0.75).to(base.dtype)

        return ClippedAbsmax()

    class ShrunkRange(AffineOptimizer):
        def optimize(self, base, bits, axis):
            scale, zeropoint = MaxOptimizer().optimize(base, bits, axis)
            return (scale * 0.75).to(base.dtype), zeropoint

    return ShrunkRange()
