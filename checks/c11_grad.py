"""C11 — gradients pass straight through quantization and match the float linear/conv backward; no stale weights."""
import torch
import torch.nn.functional as F
from hypothesis import strategies as st

from vlib import gen
from vlib import oracle as O
from vlib.core import Outcome, Raised, cut, drive

from checks import models as M

from optimum.quanto import Calibration, QTensor, freeze, quantize, quantize_activation, quantize_weight
from optimum.quanto.nn import QModuleMixin

ACT = {"none": None, "qint8": O.QT8["qint8"], "qfloat8_e4m3fn": O.QT8["qfloat8_e4m3fn"], "qfloat8_e5m2": O.QT8["qfloat8_e5m2"]}


@st.composite
def cases(draw):
    kind = draw(st.sampled_from(["linear", "linear", "conv"]))
    c = {
        "kind": kind,
        "wq": draw(st.sampled_from(sorted(O.QTALL))),
        "aq": draw(st.sampled_from(sorted(ACT))),
        "scales": draw(st.sampled_from(["drawn", "drawn", "saturating", "calibrated", "ones"])),
        "frozen": draw(st.integers(0, 3)) == 0,
        "xlayout": draw(st.sampled_from(["contig", "contig", "permuted"])),
        "glayout": draw(st.sampled_from(["contig", "contig", "permuted", "expanded"])),
        "seed": draw(st.integers(0, 2**20)),
        "mag": draw(st.sampled_from([1.0, 1.0, 0.1, 40.0])),
        "input": draw(st.sampled_from(["float", "float", "float", "quantized", "quantized-other-qtype", "quantized-per-axis"])),
        "via_dequantize": draw(st.booleans()),
        "dtype": draw(st.sampled_from(["fp32", "fp32", "fp16", "bf16"])),
        "gscale": draw(st.sampled_from([1.0, 1.0, 64.0, 1e-2])),  # loss-scaled / tiny upstream gradients
    }
    if kind == "linear":
        c["hp"] = {"t": "linear", "i": draw(st.sampled_from([1, 3, 8, 16, 33, 64, 160])), "o": draw(st.integers(1, 7)), "bias": draw(st.booleans())}
        c["batch"] = draw(st.lists(st.integers(1, 4), min_size=0, max_size=3))  # [] = a single vector of activations
        if draw(st.integers(0, 9)) == 0:
            # thousands of rows (long sequences x batch): sizes beyond any plausible blocking threshold, not multiples of it
            c["batch"] = draw(st.sampled_from([[1030], [1500], [3, 700], [2, 23, 29], [2050], [4100]]))
            c["hp"]["i"] = min(c["hp"]["i"], 16)
        elif c["batch"] and c["scales"] == "ones" and c["input"] == "float" and draw(st.integers(0, 2)) == 0:
            # an EMPTY batch (a mixture-of-experts expert that received no token): every gradient is defined, and null
            c["batch"][draw(st.integers(0, len(c["batch"]) - 1))] = 0
    else:
        c["hp"] = draw(M.conv_hparams())
        c["hw"] = draw(st.integers(3, 7))
        c["batch"] = draw(st.lists(st.integers(1, 3), min_size=0, max_size=1))
    return c


def _perm(t):
    """same values, non-contiguous layout (leaf stays the base)"""
    if t.ndim >= 3:
        return t.transpose(0, 1).contiguous().transpose(0, 1)
    if t.ndim == 2:
        return t.t().contiguous().t()
    return t


def functional(qm, kind, x, w, b):
    if kind == "linear":
        return F.linear(x, w, b)
    return torch.nn.Conv2d._conv_forward(qm, x, w, b)


def exec_case(case):
    with M.repeatable_kernels(case["kind"] == "conv"):
        return _exec_case(case)


def _exec_case(case):
    out = Outcome()
    g = torch.Generator().manual_seed(case["seed"])
    kind = case["kind"]
    aq, wq = ACT[case["aq"]], O.QTALL[case["wq"]]
    dtype = gen.DT[case.get("dtype", "fp32")]
    fm = M.build_tree(case["hp"], g)
    model = torch.nn.Sequential(fm).to(dtype)
    if kind == "linear":
        shape = tuple(case["batch"]) + (case["hp"]["i"],)
    else:
        shape = tuple(case["batch"]) + (case["hp"]["ci"], case["hw"], case["hw"])
    x = (torch.randn(shape, generator=g) * case["mag"]).to(dtype)
    with torch.no_grad():
        fy = cut(model, x)
    rank = len(shape)
    out.fingerprint = [kind, case["wq"], case["aq"], case["scales"], case["frozen"], case["xlayout"], case["glayout"], rank, case["hp"], case["input"], case.get("dtype", "fp32"), case.get("gscale", 1.0)]
    out.klass = [kind, f"w-{case['wq']}", f"act-{case['aq']}", f"rank{rank}", f"x-{case['xlayout']}", f"g-{case['glayout']}", "frozen" if case["frozen"] else "unfrozen",
                 f"scales-{case['scales']}", f"in-{case['input']}"]
    out.nontrivial = rank != 3 or case["xlayout"] != "contig" or case["glayout"] != "contig" or kind == "conv" or case["wq"] != "qint8" or case["frozen"]
    if isinstance(fy, Raised):
        out.discard = True
        return out
    r = cut(quantize, model, weights=wq, activations=aq)
    if isinstance(r, Raised):
        return out.fail(f"quantize-raises:{r.type}", r.text)
    qm = model[0]
    if aq is not None:
        f_in = {"drawn": 100.0, "saturating": 20.0, "ones": None, "calibrated": None}[case["scales"]]
        if f_in is not None:
            qm.input_scale = torch.tensor(float(x.abs().max()) / f_in + 1e-6, dtype=dtype)
            qm.output_scale = torch.tensor(max(float(fy.abs().max()), 1e-3) / (f_in * 0.9), dtype=dtype)
        elif case["scales"] == "calibrated":
            with torch.no_grad(), Calibration(streamline=False):
                model(x * 0.5)  # a narrower batch than the one used below: some activations saturate
            if qm.activation_qtype is None:
                aq = None
    if case["frozen"]:
        how = ["freeze", "freeze", "load", "load-assign"][case["seed"] % 4] if "seed" in case else "freeze"
        if how == "freeze":
            r = cut(freeze, model)
        else:
            # the other legal way of becoming frozen: loading the state_dict of a frozen copy into the not yet frozen model
            import copy

            def by_load():
                twin = copy.deepcopy(model)
                freeze(twin)
                model.load_state_dict(twin.state_dict(), assign=(how == "load-assign"))

            r = cut(by_load)
            out.klass.append(f"frozen-by-{how}")
        if isinstance(r, Raised):
            return out.fail(f"freeze-raises:{r.type}", r.text)
        if case["seed"] % 5 >= 3:
            # ... and the model that is trained further is a deep copy (or an unpickled copy) of the frozen one
            import copy
            import pickle

            # (torch itself cannot pickle float8 tensors in this build: those models are deep-copied)
            cp = cut(lambda: copy.deepcopy(model) if case["seed"] % 5 == 3 or "float8" in case["wq"] else pickle.loads(pickle.dumps(model)))
            if isinstance(cp, Raised):
                return out.fail(f"frozen-copy-raises:{cp.type}", cp.text)
            model = cp
            out.klass.append("frozen-then-copied")
        qm = model[0]
    if case["seed"] % 3 == 0:
        # fine-tuning with the model in eval mode (batch-norm / dropout frozen) is legal: gradients do not depend on it
        model.eval()
        out.klass.append("eval-mode")
    base = x.clone().requires_grad_(True)
    inp = _perm(base) if case["xlayout"] == "permuted" else base
    fed = inp
    if case["input"].startswith("quantized"):
        iq = aq if aq is not None else O.QT8["qint8"]
        if case["input"] == "quantized-other-qtype":
            iq = O.QT8["qfloat8_e4m3fn"] if iq.name != "qfloat8_e4m3fn" else O.QT8["qint8"]
        s_in = (inp.detach().abs().max() / 100.0 + 1e-6)
        if case["input"] == "quantized-per-axis" and inp.ndim >= 2 and inp.shape[0] > 1:
            from optimum.quanto.tensor.quantizers import SymmetricQuantizer

            sshape = [inp.shape[0]] + [1] * (inp.ndim - 1)
            sc = (s_in * (1 + torch.arange(inp.shape[0], dtype=torch.float32) * 0.25)).reshape(sshape).to(dtype)
            fed = SymmetricQuantizer.apply(inp, iq, 0, sc)
        else:
            fed = quantize_activation(inp, iq, s_in)
    tag = f"{kind}/{'frozen' if case['frozen'] else 'unfrozen'}"
    y = cut(model, fed)
    if isinstance(y, Raised):
        return out.fail(f"{tag}/forward-raises:{y.type}", y.text)
    gO = (torch.randn(tuple(y.shape), generator=g) * case.get("gscale", 1.0)).to(dtype)
    if case["glayout"] == "permuted":
        gO = _perm(gO)
    elif case["glayout"] == "expanded" and gO.ndim >= 2 and gO.numel() > 0:
        gO = gO.select(0, 0).unsqueeze(0).expand(gO.shape)
    for p in model.parameters():
        p.grad = None
    if isinstance(y, QTensor) and case.get("via_dequantize"):
        r = cut(lambda: y.dequantize().backward(gO))  # dequantization is an identity map for gradients too
    else:
        r = cut(lambda: y.backward(gO))
    if isinstance(r, Raised):
        lay = "non-contiguous" if (case["xlayout"] != "contig" or case["glayout"] != "contig") else "contiguous"
        return out.fail(f"{tag}/backward-raises:{r.type}/{lay}", f"{r.text} (input rank {rank}, x {case['xlayout']}, grad {case['glayout']}, weights {case['wq']}, act {case['aq']})")
    # ---- float64 reference graph: straight-through estimators around the same projections
    x2 = x.detach().to(torch.float64).requires_grad_(True)
    inp2 = _perm(x2) if case["xlayout"] == "permuted" else x2
    w2 = qm.qweight.dequantize().detach().to(torch.float64).requires_grad_(True)
    b2 = None if qm.bias is None else qm.bias.detach().to(torch.float64).requires_grad_(True)
    if isinstance(fed, QTensor):
        proj = fed.dequantize().detach()
        if aq is not None and not (fed.qtype == aq and fed.axis is None):
            proj = quantize_activation(proj, aq, qm.input_scale).dequantize().detach()
        xin = inp2 + (proj.to(torch.float64) - inp2).detach()
    elif aq is not None:
        proj = quantize_activation(inp.detach(), aq, qm.input_scale).dequantize().detach().to(torch.float64)
        xin = inp2 + (proj - inp2).detach()
    else:
        xin = inp2
    raw = functional(qm, kind, xin, w2, b2)
    raw.backward(gO.to(torch.float64))
    # magnitudes for the accumulation bounds: the same bilinear maps on absolute values
    xa = xin.detach().abs().requires_grad_(True)
    wa = w2.detach().abs().requires_grad_(True)
    ba = None if b2 is None else b2.detach().abs().requires_grad_(True)
    functional(qm, kind, xa, wa, ba).backward(gO.to(torch.float64).abs())
    u = gen.U[dtype]
    fmax = gen.FMAX[dtype]
    nrows = max(1, gO.numel() // max(1, w2.shape[0]))
    Kx = w2.shape[0] * (w2[0].numel() // max(1, w2.shape[1])) if kind == "conv" else w2.shape[0]

    def cmp(name, got, want, mag, K):
        if got is None:
            out.fail(f"{tag}/{name}-grad-missing", f"{name}.grad is None")
            return
        if tuple(got.shape) != tuple(want.shape):
            out.fail(f"{tag}/{name}-grad-shape", f"{tuple(got.shape)} vs {tuple(want.shape)}")
            return
        tol = (K + 8) * u * mag + 4 * u * want.abs() + 4 * gen.ETA[dtype]
        # entries whose exact value (or whose partial sums) may leave the dtype's range are not judged
        bad = ~((got.to(torch.float64) - want).abs() <= tol) & (mag * (1 + (K + 8) * u) < fmax)
        if bool(bad.any()):
            i = int(torch.nonzero(bad.reshape(-1))[0])
            sat = ""
            if name == "input" and aq is not None and not isinstance(fed, QTensor):
                qq = (inp.detach().to(torch.float64) / float(qm.input_scale)).abs().reshape(-1)[i].item()
                sat = f"; this element's |x/input_scale| = {qq:.4g}"
            out.fail(f"{tag}/{name}-grad-value", f"{int(bad.sum())}/{bad.numel()} entries: {got.reshape(-1)[i].item()!r} vs float twin {want.reshape(-1)[i].item()!r}{sat} (weights {case['wq']}, act {case['aq']}, rank {rank})")

    cmp("input", base.grad, x2.grad, xa.grad.abs() if False else _xmag(x2, xa, case), Kx)
    if case["frozen"]:
        wgrad = qm.weight.grad
        if wgrad is not None:
            out.fail(f"{kind}/frozen/weight-receives-grad", f"frozen {case['wq']} weight received a gradient of type {type(wgrad).__name__} (requires_grad={qm.weight.requires_grad})")
        for sn in ("input_scale", "output_scale"):
            s = getattr(qm, sn)
            if s.grad is not None or s.requires_grad:
                out.fail(f"{kind}/frozen/scale-receives-grad", f"{sn} requires_grad={s.requires_grad}")
    else:
        cmp("weight", qm.weight.grad, w2.grad, wa.grad, nrows)
    if qm.bias is not None:
        cmp("bias", qm.bias.grad, b2.grad, ba.grad, nrows)
    if not out.failures and case["seed"] % 2 == 0:
        # gradient accumulation: a second forward / backward with the SAME upstream gradient tensor (micro-batches, two heads fed
        # by one tensor). The upstream gradient belongs to the caller, and every accumulated gradient is exactly twice the first
        first = {n: p.grad.detach().clone() for n, p in model.named_parameters() if p.grad is not None and not isinstance(p.grad, QTensor)}
        xg1 = None if base.grad is None else base.grad.detach().clone()
        g_keep = gO.clone()
        y2 = cut(model, fed)
        r2 = y2 if isinstance(y2, Raised) else cut(lambda: (y2.dequantize() if isinstance(y2, QTensor) and case.get("via_dequantize") else y2).backward(gO))
        if isinstance(r2, Raised):
            return out.fail(f"{tag}/second-backward-raises:{r2.type}", r2.text)
        if not torch.equal(gO, g_keep):
            out.fail(f"{tag}/upstream-grad-modified", f"the upstream gradient tensor handed to backward() was modified by accumulating into a parameter gradient (rank {rank}, weights {case['wq']}, act {case['aq']})")
        for n, p in model.named_parameters():
            if n in first and not torch.equal(p.grad, first[n] * 2):
                out.fail(f"{tag}/accumulated-grad", f"{n}.grad after two identical backward passes is not twice the first (rank {rank}, weights {case['wq']}, act {case['aq']})")
                break
        if xg1 is not None and not torch.equal(base.grad, xg1 * 2):
            out.fail(f"{tag}/accumulated-grad", f"input.grad after two identical backward passes is not twice the first (rank {rank})")
    if not out.failures and case["seed"] % 2 == 1 and aq is not None and not case["frozen"] and not isinstance(fed, QTensor) and x.numel() > 0:
        # calibration-aware training: the module is called on a batch, then on ANOTHER batch of another range (which updates its
        # scales), and only then is the first call back-propagated (gradient accumulation, a module shared by two branches). The
        # gradients of the first call are those of the first call alone: a twin that never sees the second batch gives them
        import copy

        twin = copy.deepcopy(model)
        got = {}
        for which, net in (("both", model), ("alone", twin)):
            for p_ in net.parameters():
                p_.grad = None
            xa_ = (x.detach() * 0.7).requires_grad_(True)

            def go():
                with Calibration(streamline=False):
                    ya = net(xa_)
                    if which == "both":
                        net(x.detach() * 3.0)
                return ya

            ya = cut(go)
            if isinstance(ya, Raised):
                return out.fail(f"{tag}/calibration-with-grad-raises:{ya.type}", ya.text)
            rb = cut(lambda: ya.backward(gO))
            if isinstance(rb, Raised):
                return out.fail(f"{tag}/backward-after-later-forward-raises:{rb.type}", rb.text)
            got[which] = {n: (None if p_.grad is None else p_.grad.detach().clone()) for n, p_ in net.named_parameters()}
            got[which]["<input>"] = None if xa_.grad is None else xa_.grad.detach().clone()
        out.klass.append("backward-after-a-later-forward")
        for n, ga in got["alone"].items():
            gb = got["both"].get(n)
            if (ga is None) != (gb is None) or (ga is not None and not bool(((ga == gb) | (torch.isnan(ga) & torch.isnan(gb))).all())):
                out.fail(f"{tag}/grad-changed-by-a-later-forward", f"{n}: the gradient of a call differs when the module is called on another batch (inside Calibration) before the backward "
                                                                   f"(weights {case['wq']}, act {case['aq']}, rank {rank})")
                break
    return out


def _xmag(x2, xa, case):
    # xa was built on the projected input laid out like the module input: bring its gradient back to the base layout
    return xa.grad.reshape(x2.shape) if xa.grad.shape == x2.shape else xa.grad


# ----------------------------------------------------------------------------- staleness: forwards interleaved with in-place updates

@st.composite
def stale_cases(draw):
    kind = draw(st.sampled_from(["linear", "conv"]))
    c = {
        "kind": kind,
        "wq": draw(st.sampled_from(sorted(O.QTALL))),
        "aq": draw(st.sampled_from(["none", "none", "qint8", "qfloat8_e4m3fn"])),
        "seed": draw(st.integers(0, 2**20)),
        "steps": draw(st.lists(st.sampled_from(["forward", "update-big", "update-small", "update-row", "update-data", "update-data-copy", "sgd", "forward", "forward-grad", "replace-param", "replace-data", "functional-call"]), min_size=2, max_size=6)),
    }
    if kind == "linear":
        c["hp"] = {"t": "linear", "i": draw(st.sampled_from([4, 16, 33, 160])), "o": draw(st.integers(1, 6)), "bias": draw(st.booleans())}
    else:
        c["hp"] = draw(M.conv_hparams())
    return c


def exec_stale(case):
    with M.repeatable_kernels(case["kind"] == "conv"):
        return _exec_stale(case)


def _exec_stale(case):
    out = Outcome()
    g = torch.Generator().manual_seed(case["seed"])
    kind = case["kind"]
    aq, wq = ACT[case["aq"]], O.QTALL[case["wq"]]
    fm = M.build_tree(case["hp"], g)
    model = torch.nn.Sequential(fm)
    x = torch.randn((3, case["hp"]["i"]) if kind == "linear" else (2, case["hp"]["ci"], 6, 6), generator=g)
    with torch.no_grad():
        if isinstance(cut(model, x), Raised):
            out.discard = True
            return out
    r = cut(quantize, model, weights=wq, activations=aq)
    if isinstance(r, Raised):
        return out.fail(f"stale/quantize-raises:{r.type}", r.text)
    qm = model[0]
    if aq is not None:
        qm.input_scale = torch.tensor(float(x.abs().max()) / 100.0)
        qm.output_scale = torch.tensor(0.05)
    opt = torch.optim.SGD(model.parameters(), lr=0.5)
    prev_codes = None
    updates = 0
    for st_ in case["steps"]:
        if st_ in ("forward", "forward-grad", "functional-call"):
            w_now = qm.weight
            if st_ == "functional-call":
                # a stateless call with OTHER weights (torch.func.functional_call swaps the attribute for the duration of the call)
                w_now = torch.randn(qm.weight.shape, generator=g) * 0.5
                with torch.no_grad():
                    y = cut(lambda: torch.func.functional_call(model, {"0.weight": w_now}, (x,)))
            else:
                with torch.set_grad_enabled(st_ == "forward-grad"):
                    y = cut(model, x)
            if isinstance(y, torch.Tensor):
                y = y.detach()
            if isinstance(y, Raised):
                return out.fail(f"stale/forward-raises:{y.type}", y.text)
            # reference: the same functional on a weight quantized NOW from the current float weight
            qw = quantize_weight(w_now.detach(), wq, 0, qm.weight_group_size)
            xin = quantize_activation(x, aq, qm.input_scale) if aq is not None else x
            with torch.no_grad():
                want = F.linear(xin, qw, qm.bias) if kind == "linear" else torch.nn.Conv2d._conv_forward(qm, xin, qw, qm.bias)
                if aq is not None:
                    want = quantize_activation(want.dequantize() if isinstance(want, QTensor) else want, aq, qm.output_scale)
            yd = y.dequantize() if isinstance(y, QTensor) else y
            wd = want.dequantize() if isinstance(want, QTensor) else want
            if tuple(yd.shape) != tuple(wd.shape) or not torch.equal(yd, wd):
                out.fail(f"stale/{kind}/forward-does-not-use-current-weights", f"after {updates} in-place update(s) the forward differs from the one computed from the current float weights ({case['wq']}, act {case['aq']})")
                return out
        else:
            updates += 1
            if st_ == "sgd":
                model.zero_grad()
                yy = model(x)
                (yy.dequantize() if isinstance(yy, QTensor) else yy).square().sum().backward()
                opt.step()
            else:
                with torch.no_grad():
                    if st_ == "update-big":
                        qm.weight.add_(torch.randn(qm.weight.shape, generator=g))
                    elif st_ == "update-small":
                        qm.weight.add_(torch.randn(qm.weight.shape, generator=g) * 1e-4)
                    elif st_ == "update-data":
                        # the `.data` idiom: in place, same storage, and the autograd version counter is NOT bumped
                        qm.weight.data.add_(torch.randn(qm.weight.shape, generator=g))
                    elif st_ == "update-data-copy":
                        qm.weight.data.copy_(torch.randn(qm.weight.shape, generator=g) * 0.7)
                    elif st_ == "replace-param":
                        # weight surgery: ANOTHER Parameter object takes the place of the weight (pruned / averaged weights swapped in)
                        qm.weight = torch.nn.Parameter(torch.randn(qm.weight.shape, generator=g) * 0.6)
                        opt = torch.optim.SGD(model.parameters(), lr=0.5)
                    elif st_ == "replace-data":
                        qm.weight.data = torch.randn(qm.weight.shape, generator=g) * 0.8
                    else:
                        qm.weight[0].mul_(-3.0)
    out.fingerprint = [kind, case["wq"], case["aq"], case["steps"], case["hp"]]
    out.klass = [kind, f"w-{case['wq']}", f"act-{case['aq']}"] + [f"step-{s}" for s in set(case["steps"])]
    out.nontrivial = updates > 0 and case["steps"][-1] == "forward" or ("forward" in case["steps"][1:] and updates > 0)
    return out


def _run(strategy, execute):
    def run(ctx):
        drive(ctx, strategy, execute, max(1, int(ctx.params["n"] * ctx.params.get("scale", 1))))

    return run


SUBCHECKS = {"grad": {"run": _run(cases(), exec_case), "execute": exec_case}, "stale": {"run": _run(stale_cases(), exec_stale), "execute": exec_stale}}
