"""C12 — calibration scales are the configured-momentum average of batch absmax ranges (reference model of the EMA)."""
import torch
import torch.nn.functional as F
from hypothesis import strategies as st

from vlib import gen
from vlib import oracle as O
from vlib.core import Outcome, Raised, cut, drive

from checks import models as M

from optimum.quanto import Calibration, QBytesTensor, QTensor, absmax_scale, quantize, quantize_activation
from optimum.quanto.nn import QModuleMixin

AQ = ["qint8", "qfloat8_e4m3fn", "qfloat8_e5m2"]
MODELS = ["linear", "conv", "ln", "lin-lin", "lin-relu-lin", "lin-inplace-lin", "lin-inplace-lin", "ln-lin", "conv-relu-conv", "lone-q-input", "lin-ln", "ln-q-input"]
MOMENTA = [0.0, 0.1, 0.5, 0.9, 0.9, 0.99]


@st.composite
def cases(draw):
    ctxs = []
    for _ in range(draw(st.integers(1, 3))):
        m = draw(st.one_of(st.sampled_from(MOMENTA), st.integers(0, 999).map(lambda k: k / 1000.0)))
        ctxs.append({
            "m": m,
            "streamline": draw(st.integers(0, 3)) == 0,
            "debug": draw(st.integers(0, 4)) == 0,  # verbose mode: must not change what is computed
            "reuse": draw(st.integers(0, 2)) == 0,  # re-enter the previous Calibration object instead of a fresh one
            "batches": draw(st.lists(st.tuples(st.integers(-3, 3), st.sampled_from(["normal", "normal", "normal", "absmax-is-qmax", "same", "refill", "tail"])), min_size=1, max_size=4)),
        })
    return {
        "model": draw(st.sampled_from(MODELS)),
        "aq": draw(st.sampled_from(AQ)),
        "wq": draw(st.sampled_from(["qint8", "qint8", "qfloat8_e4m3fn", "qint4"])),
        "dtype": draw(st.sampled_from(["fp32", "fp32", "fp16"])),
        "contexts": ctxs,
        "seed": draw(st.integers(0, 2**20)),
        "no_grad": draw(st.booleans()),
    }


class _Inplace(torch.nn.Module):
    def __init__(self, how):
        super().__init__()
        self.how = how

    def forward(self, x):
        if self.how == 0:
            x *= 2.0
        elif self.how == 1:
            x /= 4.0
        elif self.how == 2:
            x += 0.5
        else:
            x = x.clamp_(min=-0.25)
        return x


def build(case, g):
    k = case["model"]
    if k in ("linear", "lone-q-input"):
        mods, shape = [M.build_tree({"t": "linear", "i": 8, "o": 5, "bias": True}, g)], (8,)
    elif k == "conv":
        mods, shape = [M.build_tree({"t": "conv", "ci": 2, "co": 3, "k": 3, "stride": 1, "padding": 1, "dilation": 1, "groups": 1, "pmode": "zeros", "bias": True}, g)], (2, 5, 5)
    elif k == "lin-ln":
        # a projection without bias followed by a normalisation: on small batches the normalised values are comparable to eps
        mods, shape = [M.build_tree({"t": "linear", "i": 8, "o": 6, "bias": False}, g), M.build_tree({"t": "ln", "shape": [6], "affine": True, "bias": True, "eps": 1e-5}, g)], (8,)
    elif k in ("ln", "ln-q-input"):
        mods, shape = [M.build_tree({"t": "ln", "shape": [6], "affine": True, "bias": True, "eps": 1e-5}, g)], (6,)
    elif k == "lin-lin":
        mods, shape = [M.build_tree({"t": "linear", "i": 8, "o": 6, "bias": True}, g), M.build_tree({"t": "linear", "i": 6, "o": 4, "bias": False}, g)], (8,)
    elif k == "lin-relu-lin":
        mods, shape = [M.build_tree({"t": "linear", "i": 8, "o": 6, "bias": True}, g), torch.nn.ReLU(), M.build_tree({"t": "linear", "i": 6, "o": 4, "bias": True}, g)], (8,)
    elif k == "lin-inplace-lin":
        # user code between two layers that updates the quantized output of the first one IN PLACE (x *= k, x += c): whatever
        # that does to the tensor, the first layer's own output scale is the average of ITS raw outputs
        mods, shape = [M.build_tree({"t": "linear", "i": 8, "o": 6, "bias": True}, g), _Inplace(case["seed"] % 4), M.build_tree({"t": "linear", "i": 6, "o": 4, "bias": True}, g)], (8,)
    elif k == "ln-lin":
        mods, shape = [M.build_tree({"t": "ln", "shape": [6], "affine": True, "bias": True, "eps": 1e-5}, g), M.build_tree({"t": "linear", "i": 6, "o": 4, "bias": True}, g)], (6,)
    else:
        c1 = {"t": "conv", "ci": 2, "co": 4, "k": 3, "stride": 1, "padding": 1, "dilation": 1, "groups": 1, "pmode": "zeros", "bias": True}
        c2 = {"t": "conv", "ci": 4, "co": 2, "k": 1, "stride": 1, "padding": 0, "dilation": 1, "groups": 2, "pmode": "zeros", "bias": False}
        mods, shape = [M.build_tree(c1, g), torch.nn.ReLU(), M.build_tree(c2, g)], (2, 5, 5)
    return torch.nn.Sequential(*mods), shape


def raw64(qm, x_in):
    """float64 evaluation of the module's raw (pre-quantization) output on the input it really computes on, with a bound"""
    x64 = x_in.to(torch.float64)
    b64 = None if getattr(qm, "bias", None) is None else qm.bias.detach().to(torch.float64)
    u = gen.U[x_in.dtype]
    if isinstance(qm, torch.nn.LayerNorm):
        w64 = None if qm.weight is None else qm.weight.detach().to(torch.float64)
        raw = F.layer_norm(x64, qm.normalized_shape, w64, b64, qm.eps)
        return raw, 64 * u * (raw.abs() + 1)
    w64 = qm.qweight.dequantize().detach().to(torch.float64)
    if isinstance(qm, torch.nn.Linear):
        raw = F.linear(x64, w64, b64)
        mag = F.linear(x64.abs(), w64.abs(), None if b64 is None else b64.abs())
    else:
        raw = torch.nn.Conv2d._conv_forward(qm, x64, w64, b64)
        mag = torch.nn.Conv2d._conv_forward(qm, x64.abs(), w64.abs(), None if b64 is None else b64.abs())
    K = w64[0].numel()
    bound = (K + 4) * u * mag + 3 * u * raw.abs()
    return raw, bound


def scale_product_term(qm, inp_scale, x_in, dtype):
    """QLinear on quantized activations forms input_scale * weight_scale in the working dtype: a subnormal product has an
    absolute error of eta/2 that the sum of code products amplifies (documented mechanism, modelled as in C07/C08)"""
    qw = qm.qweight
    if not isinstance(qm, torch.nn.Linear) or not isinstance(qw, QBytesTensor):
        return 0.0
    sp = abs(float(inp_scale)) * float(qw._scale.detach().to(torch.float64).abs().min())
    if sp <= 0:
        return 0.0
    return 0.0  # (no allowance any more: the scale product is formed in float32, D46)


def exec_case(case):
    import contextlib, io

    with contextlib.redirect_stdout(io.StringIO()):  # debug=True contexts print
        return _exec_case(case)


def _exec_case(case):
    with M.repeatable_kernels("conv" in case["model"]):
        return _exec_case(case)


def _exec_case(case):
    out = Outcome()
    g = torch.Generator().manual_seed(case["seed"])
    dtype = gen.DT[case["dtype"]]
    aq = O.QT8[case["aq"]]
    wq = O.QTALL[case["wq"]]
    qmax = float(torch.finfo(aq.dtype).max if aq.is_floating_point else 127)
    model, shape = build(case, g)
    model = model.to(dtype)
    r = cut(quantize, model, weights=wq, activations=aq)
    if isinstance(r, Raised):
        return out.fail(f"quantize-raises:{r.type}", r.text)
    qmods = [(n, m) for n, m in model.named_modules() if isinstance(m, QModuleMixin)]
    seen = {}

    def make_hook(name):
        def hook(mod, inp):
            seen[name] = inp[0]

        return hook

    handles = [m.register_forward_pre_hook(make_hook(n)) for n, m in qmods]
    # reference model: per module and per scale -> (value, tolerance) or None when still uninitialised
    ref = {n: {"in": None, "out": None} for n, _ in qmods}
    u = gen.U[dtype]
    nb = 0
    mags = []
    momenta = []
    last_batch = None
    try:
        prev_ctx = None
        for ci, cx in enumerate(case["contexts"]):
            if cx.get("reuse") and prev_ctx is not None:
                ctx, mom = prev_ctx  # the same object entered again: its own momentum applies
            else:
                mom = cx["m"]
                ctx = Calibration(momentum=mom, streamline=cx["streamline"], debug=cx.get("debug", False))
            prev_ctx = (ctx, mom)
            momenta.append(mom)
            with torch.set_grad_enabled(not case["no_grad"]):
                ctx.__enter__()
            try:
                for (e, kind) in cx["batches"]:
                    if kind == "same" and last_batch is not None:
                        x = last_batch
                    elif kind == "refill" and last_batch is not None:
                        # a static input buffer: the SAME tensor object refilled in place with the next batch
                        x = last_batch
                        x.copy_(M.batch(shape, dtype, g, bsz=3, mag=10.0**e))
                    else:
                        x = M.batch(shape, dtype, g, bsz=3, mag=10.0**e)
                        if kind == "absmax-is-qmax":
                            # directed: absmax / qmax == 1.0 exactly (the value the implementation uses as 'uninitialised')
                            x = x / x.abs().max().clamp_min(1e-30) * qmax
                            x.reshape(-1)[0] = qmax
                            x = x.clamp(-qmax, qmax).to(dtype)
                    target = model
                    if kind == "tail" and len(model) > 1 and isinstance(model[-1], (torch.nn.Linear, torch.nn.Conv2d)):
                        # the LAST module calibrated on its own with a float batch (a head fine-tuned / calibrated separately): the
                        # modules that see no batch keep their scales
                        target = model[-1]
                        tshape = (target.in_features,) if isinstance(target, torch.nn.Linear) else (target.in_channels, 5, 5)
                        x = M.batch(tshape, dtype, g, bsz=3, mag=10.0**e)
                    else:
                        last_batch = x
                    mags.append(float(x.abs().max()))
                    fed = x
                    if case["model"] in ("lone-q-input", "ln-q-input"):
                        s_in = (x.abs().max() / qmax * [1.0, 1.7, 0.6][nb % 3]).to(dtype)
                        fq = aq
                        if case["seed"] % 3 == 0:
                            # the upstream stage quantizes with ANOTHER 8-bit qtype: its scale is relative to another range, the module
                            # requantizes such an input and evaluates its own scale from the values
                            names8 = sorted(O.QT8)
                            fq = O.QT8[names8[(names8.index(aq.name) + 1 + case["seed"] % 2) % 3]]
                            s_in = (x.abs().max() / float(O.grid(fq)[-1]) * [1.0, 1.7, 0.6][nb % 3]).to(dtype)
                        fed = quantize_activation(x, fq, torch.where(s_in > 0, s_in, torch.ones_like(s_in)))
                        if case["seed"] % 5 == 2 and fq == aq and x.ndim == 2 and x.shape[0] > 1:
                            # ... or quantized PER-AXIS along the batch axis (one scale per sample, ranges far apart): the module
                            # adopts the largest scale and requantizes such an input per-tensor before it computes
                            from optimum.quanto import quantize_weight as _qw

                            rows = torch.tensor([[50.0], [1.0], [0.02]], dtype=torch.float64)[: x.shape[0]]
                            xr = gen.clamp_finite(x.to(torch.float64) * rows, dtype)
                            pa = cut(_qw, xr, aq, 0)
                            if isinstance(pa, QBytesTensor) and pa.axis == 0 and bool((pa._scale > 0).all()):
                                fed = pa
                    seen.clear()
                    before = {n: (m.input_scale.detach().clone(), m.output_scale.detach().clone(), m.activation_qtype) for n, m in qmods}
                    with torch.set_grad_enabled(not case["no_grad"]):
                        y = cut(target, fed)
                    if isinstance(y, Raised):
                        return out.fail(f"calibration-forward-raises:{y.type}", y.text)
                    nb += 1
                    for n, m in qmods:
                        active = before[n][2] is not None
                        if not active or n not in seen:
                            # activations switched off (streamlining): the module must keep its scales
                            if not torch.equal(m.input_scale, before[n][0]) or not torch.equal(m.output_scale, before[n][1]):
                                out.fail("ema/disabled-module-scale-moved", f"{n}: {'it saw no batch' if active else 'activations are off'} but its scales changed")
                            continue
                        inp = seen[n]
                        for which in ("in", "out"):
                            got_t = m.input_scale if which == "in" else m.output_scale
                            prev_t = before[n][0] if which == "in" else before[n][1]
                            got = float(got_t.detach().to(torch.float64))
                            if got_t.numel() != 1 or got_t.dtype != dtype:
                                out.fail(f"ema/{which}put-scale-form", f"{n}: scale shape {tuple(got_t.shape)} dtype {got_t.dtype} (model {dtype})")
                                continue
                            adopted = False
                            if which == "in":
                                if isinstance(inp, QBytesTensor) and inp.qtype == aq:
                                    new, ntol, adopted = float(inp._scale.detach().to(torch.float64).max()), 0.0, True
                                elif isinstance(inp, QBytesTensor):
                                    new = float(inp.dequantize().detach().to(torch.float64).abs().max()) / qmax
                                    ntol = 2 * u * new + gen.ETA[dtype]
                                else:
                                    new = float(inp.detach().to(torch.float64).abs().max()) / qmax
                                    ntol = 2 * u * new + gen.ETA[dtype]
                            else:
                                if isinstance(inp, QBytesTensor) and inp.qtype == aq and inp.axis is None:
                                    x_in = inp.dequantize().detach()
                                elif isinstance(inp, QBytesTensor):
                                    x_in = quantize_activation(inp.dequantize().detach(), aq, m.input_scale.detach()).dequantize()
                                elif isinstance(m, torch.nn.LayerNorm):
                                    x_in = inp.detach()
                                else:
                                    x_in = quantize_activation(inp.detach(), aq, m.input_scale.detach()).dequantize()
                                raw, bound = raw64(m, x_in)
                                if not float(raw.abs().max()) * 1.01 < gen.FMAX[dtype]:
                                    out.discard = True  # the float module itself overflows the dtype on this batch
                                    return out
                                new = float(raw.abs().max()) / qmax
                                s_used = inp._scale.detach().to(torch.float64).max() if isinstance(inp, QBytesTensor) and inp.qtype == aq and inp.axis is None else m.input_scale.detach().to(torch.float64)
                                extra = 0.0 if isinstance(m, torch.nn.LayerNorm) else scale_product_term(m, s_used, x_in, dtype)
                                ntol = (float(bound.max()) + extra) / qmax + 2 * u * new + gen.ETA[dtype]
                            if not (new == new and abs(new) != float("inf")) or not bool(torch.isfinite(got_t).all()) and not bool(torch.isfinite(torch.as_tensor(new))):
                                out.discard = True  # the float computation itself overflows the dtype on this batch
                                return out
                            st_ = ref[n][which]
                            prev_is_one = bool((prev_t == 1).all())
                            if new == 0.0 or float(torch.tensor(new, dtype=torch.float64).to(dtype)) == 0.0:
                                # (a range whose scale underflows the dtype is a null range too)
                                want, wtol = (st_ if st_ is not None else (1.0, 0.0))  # a null range carries no information
                            elif adopted:
                                want, wtol = new, 0.0
                            elif st_ is None:
                                want, wtol = new, ntol
                            else:
                                want = mom * st_[0] + (1 - mom) * new
                                # three roundings per update (two products, one sum), each up to eta/2 in the subnormal range
                                wtol = mom * st_[1] + (1 - mom) * ntol + 8 * u * abs(want) + 4 * gen.ETA[dtype]
                            ref[n][which] = (want, wtol)
                            if not abs(got - want) <= wtol + 1e-300:
                                sentinel = st_ is not None and prev_is_one and not adopted
                                if sentinel:
                                    sig = f"ema/{which}put-scale/previous-scale-is-exactly-one"
                                elif adopted:
                                    sig = "ema/input-scale/not-adopted-from-quantized-input"
                                else:
                                    sig = f"ema/{which}put-scale/{'first-batch' if st_ is None else 'update'}"
                                out.fail(sig, f"{n} ({type(m).__name__}) after batch {nb} (momentum {mom}, model {case['model']}, {case['aq']}): {which}put scale {got!r}, reference model {want!r} +- {wtol:.3g} "
                                              f"(previous {float(prev_t):.6g}, this batch alone {new:.6g})")
                                ref[n][which] = (got, wtol)  # resynchronise so that one defect is reported once
            finally:
                ctx.__exit__(None, None, None)
    finally:
        for h in handles:
            h.remove()
    # after a single batch in a fresh model nothing of that batch saturates
    if nb == 1 and last_batch is not None and case["model"] not in ("lone-q-input", "ln-q-input"):
        G = float(O.grid(aq)[-1])
        n0, m0 = qmods[0]
        if m0.activation_qtype is not None and not isinstance(m0, torch.nn.LayerNorm):
            s = float(m0.input_scale.detach().to(torch.float64))
            if float(last_batch.to(torch.float64).abs().max()) > s * G * (1 + 4 * u) + G * gen.ETA[dtype]:
                out.fail("single-batch/input-saturates", f"{n0}: after one calibration batch the batch's own absmax exceeds input_scale * {G}")
            # ... nor does its raw output saturate the output grid
            x_in = quantize_activation(last_batch, aq, m0.input_scale.detach()).dequantize()
            raw, bound = raw64(m0, x_in)
            so = float(m0.output_scale.detach().to(torch.float64))
            extra = scale_product_term(m0, m0.input_scale.detach().to(torch.float64), x_in, dtype)
            if float(raw.abs().max()) > so * G * (1 + 4 * u) + float(bound.max()) + extra + G * gen.ETA[dtype]:
                out.fail("single-batch/output-saturates", f"{n0}: after one calibration batch the raw output's absmax {float(raw.abs().max()):.6g} exceeds output_scale * {G} = {so * G:.6g}")
    out.fingerprint = [case["model"], case["aq"], case["wq"], case["dtype"], [(c["m"], c["streamline"], c.get("reuse"), c["batches"]) for c in case["contexts"]]]
    big = len(mags) >= 2 and max(mags) > 2 * min(mags)
    out.nontrivial = (big and any(m != 0.9 for m in momenta)) or ("-" in case["model"] and nb >= 2) or len(case["contexts"]) >= 2
    out.klass = [f"model-{case['model']}", case["aq"], f"contexts{len(case['contexts'])}", f"batches{min(nb, 5)}"] + [f"momentum-{'default' if m == 0.9 else 'other'}" for m in set(momenta)] + [
        "streamline" if any(c["streamline"] for c in case["contexts"]) else "no-streamline"]
    return out


def run(ctx):
    drive(ctx, cases(), exec_case, max(1, int(ctx.params["n"] * ctx.params.get("scale", 1))))


SUBCHECKS = {"ema": {"run": run, "execute": exec_case}}
