"""C02 — int2/int4 affine quantization error is at most half a step per group (oracle A), and is idempotent."""
import torch

from vlib import gen
from vlib import oracle as O
from vlib.core import Outcome, Raised, cut, drive

from checks import common_rows as R

from optimum.quanto import QBitsTensor, quantize_weight
from optimum.quanto.tensor.quantizers import AffineQuantizer

STRADDLING = {"straddle", "wide", "subnormal", "nearmax", "tiny"}


def group_key(vals, dtype):
    """discriminating predicate of a failing group, derived from its actual values (not from the generator's label)"""
    lo, hi = float(vals.min()), float(vals.max())
    if (max(hi, 0.0) - min(lo, 0.0)) * (1 + 4 * gen.U[dtype]) > gen.FMAX[dtype]:
        # the group's range (including zero) is within rounding of, or beyond, the largest finite value of the
        # dtype: max - min, or scale * (2^bits - 1), overflows
        return "range-reaches-dtype-max"
    if lo == hi:
        return "zeros" if lo == 0 else "constant"
    if lo > 0 or hi < 0:
        return "one-sided"
    if lo == 0 or hi == 0:
        return "one-sided-touching-zero"
    return "straddling"


def exec_affine(case, tagroot="affine"):
    out = Outcome()
    x, gid, ng, names = R.build(case)
    _judge(out, case, x, gid, ng, names, tagroot)
    if not out.failures and case.get("again", True):
        # the SAME tensor object quantized again after an in-place update (an optimizer step, a weight reload): the result
        # must be that of its current values
        c2 = dict(case, seed=case["seed"] + 1, classes=[(c + 3) % R.NCLS for c in case["classes"]], mags=[((m + 8) % 11) - 6 for m in case["mags"]])
        y, _, _, names2 = R.build(c2)
        keep = (out.klass, out.nontrivial, out.fingerprint)
        x.copy_(y)
        _judge(out, case, x, gid, ng, names2, tagroot, stage="after-inplace-update/")
        out.klass, out.nontrivial, out.fingerprint = keep
    return out


def _judge(out, case, x, gid, ng, names, tagroot, stage=""):
    dtype = gen.DT[case["dtype"]]
    qtype = O.QTALL[case["qtype"]]
    bits = qtype.bits
    axis, gs = case["axis"], case["group_size"]
    q = cut(quantize_weight, x, qtype, axis, gs)
    tag = f"{tagroot}/{stage}{qtype.name}"
    out.klass = [f"group-{n}" for n in set(names)] + [f"axis{axis}", f"rank{x.ndim}", "grouped" if gs else "per-axis", case["dtype"], "layout-" + case.get("mem", ["contig"])[0]]
    out.nontrivial = any(n not in STRADDLING for n in names) and any(n in STRADDLING for n in names)
    out.fingerprint = [case["dtype"], case["qtype"], axis, case["shape"], gs, case.get("mem", ["contig"])[0], [names[i] for i in range(min(ng, 8))]]
    if isinstance(q, Raised):
        return out.fail(f"{tag}/raises:{q.type}", q.text)
    if not isinstance(q, QBitsTensor) or tuple(q.shape) != tuple(x.shape) or q.dtype != dtype:
        return out.fail(f"{tag}/form", f"{type(q).__name__} {tuple(q.shape)} {q.dtype}")
    d = cut(q.dequantize)
    if isinstance(d, Raised):
        return out.fail(f"{tag}/dequantize/raises:{d.type}", d.text)
    if tuple(d.shape) != tuple(x.shape) or d.dtype != dtype:
        return out.fail(f"{tag}/form", f"dequantized {tuple(d.shape)} {d.dtype} for source {tuple(x.shape)} {dtype}")
    x64, d64 = x.to(torch.float64), d.to(torch.float64)
    bound, step, lo, hi = O.affine_bound(x64, gid, ng, bits, dtype)
    err = (d64 - x64).abs()
    bad = ~(err <= bound)
    if bool(bad.any()):
        gbad = torch.unique(gid[bad]).tolist()
        seen = set()
        for gk in gbad:
            key = group_key(x64[gid == gk], dtype)
            if key in seen:
                continue
            seen.add(key)
            m = bad & (gid == gk)
            i = int(torch.nonzero(m.reshape(-1))[0])
            out.fail(
                # (groups reaching the dtype's maximum are the recorded finding whatever the stage)
                f"{tagroot}/{'' if key == 'range-reaches-dtype-max' else stage}bound/{key}",
                f"{qtype.name} {case['dtype']} group [{lo[gk].item():.6g},{hi[gk].item():.6g}] ({names[gk]}): x={x64.reshape(-1)[i].item()!r} dequantized={d64.reshape(-1)[i].item()!r} "
                f"error={err.reshape(-1)[i].item():.4g} > bound {bound.reshape(-1)[i].item():.4g} (half step {step.reshape(-1)[i].item() / 2:.4g})",
            )
    # the dequantized tensor belongs to the caller
    if d.numel():
        d_keep = d.clone()
        d.zero_()
        d2 = cut(q.dequantize)
        if isinstance(d2, Raised) or not torch.equal(d2.nan_to_num(), d_keep.nan_to_num()):
            out.fail(f"{tag}/dequantize/changed-by-caller-update", "a second dequantize() differs after the first result was updated in place")
        d = d_keep
    # re-quantization with the same scale and zero-point reproduces the codes (fp32 / fp16)
    if dtype in (torch.float32, torch.float16):
        q2 = cut(AffineQuantizer.apply, d, qtype, axis, gs, q._scale, q._zeropoint)
        if isinstance(q2, Raised):
            out.fail(f"{tag}/requantize/raises:{q2.type}", q2.text)
        else:
            c1, s1, _ = O.unpacked_codes(q)
            c2, _, _ = O.unpacked_codes(q2)
            ok = torch.isfinite(s1) & (s1 > 0) & (s1 * 16 >= gen.MINNORMAL[dtype]) & torch.isfinite(d64)
            badc = ok & (c1 != c2)
            if bool(badc.any()):
                i = int(torch.nonzero(badc.reshape(-1))[0])
                out.fail(f"{tag}/not-idempotent", f"{int(badc.sum())} codes change on re-quantization, e.g. {c1.reshape(-1)[i].item()} -> {c2.reshape(-1)[i].item()} (scale {s1.reshape(-1)[i].item():.4g})")
    return out


def run(ctx):
    n = max(1, int(ctx.params["n"] * ctx.params.get("scale", 1)))
    drive(ctx, R.row_tensor_cases(), exec_affine, n)


def _order():
    from checks import prelude

    return prelude.make_order(R.row_tensor_cases(), exec_affine, lambda c: [c["dtype"], c["qtype"], c["axis"], c["group_size"]])


def run_order(ctx):
    strategy, execute = _order()
    drive(ctx, strategy, execute, max(1, int(ctx.params["n"] * ctx.params.get("scale", 1))))


def exec_order(case):
    return _order()[1](case)


SUBCHECKS = {"affine": {"run": run, "execute": exec_affine}, "order": {"run": run_order, "execute": exec_order}}
