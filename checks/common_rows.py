"""Row-class tensors shared by C02, C03, C16: every row / group is an independent degenerate or ordinary class."""
import torch
from hypothesis import strategies as st

from vlib import gen
from vlib import oracle as O

NCLS = len(gen.ROW_CLASSES)


def per_axis_count(shape, axis):
    n = 1
    for s in shape:
        n *= s
    return n // shape[axis] if n else 0


@st.composite
def weight_shapes(draw, min_rank=1, max_rank=4):
    """(shape, axis, group_size|None) with group_size a divisor of the per-axis element count"""
    rank = draw(st.integers(min_rank, max_rank))
    if rank == 1:
        return [draw(st.integers(1, 40))], 0, None
    kind = draw(st.sampled_from(["small", "small", "square", "wide", "conv"]))
    if kind == "square":
        n = draw(st.integers(2, 8))
        shape = [n] * rank
    elif kind == "wide" and rank == 2:
        shape = [draw(st.integers(1, 6)), draw(st.sampled_from([32, 64, 96, 128, 160, 256, 384, 512]))]
        if draw(st.booleans()):
            shape.reverse()
    elif kind == "conv" and rank == 4:
        shape = [draw(st.integers(1, 6)), draw(st.integers(1, 8)), draw(st.integers(1, 3)), draw(st.integers(1, 3))]
    else:
        shape = draw(gen.shapes(rank, rank, 1, 8))
    axis = draw(st.sampled_from([0, -1]))
    per = per_axis_count(shape, axis)
    divs = gen.divisors(per)
    gs = draw(st.sampled_from([None, None] + divs))
    return shape, axis, gs


@st.composite
def row_tensor_cases(draw, degenerate_bias=False, qtypes=("qint2", "qint4"), min_rank=1, allow_groups=True):
    shape, axis, gs = draw(weight_shapes(min_rank=min_rank))
    if not allow_groups:
        gs = None
    pool = list(range(NCLS))
    if degenerate_bias:
        pool = pool + [0, 1, 2, 3, 4, 6, 7, 8, 10]
    return {
        "dtype": draw(gen.dtypes),
        "qtype": draw(st.sampled_from(list(qtypes))),
        "shape": shape,
        "axis": axis,
        "group_size": gs,
        "classes": draw(st.lists(st.sampled_from(pool), min_size=1, max_size=8)),
        "mags": draw(st.lists(st.integers(-6, 4), min_size=1, max_size=5)),
        "seed": draw(st.integers(0, 2**20)),
        # memory layout of the source (values unchanged): weights reach quantize_weight transposed (Conv1D-style
        # checkpoints), permuted, channels_last, sliced out of fused matrices
        "mem": list(draw(st.tuples(st.sampled_from(["contig", "contig", "contig", "perm", "slice", "offset"]), st.integers(0, 23)))),
    }


def groups_of(shape, axis, group_size):
    if len(shape) == 1:
        if group_size is None:
            return torch.zeros(shape, dtype=torch.int64), 1
        n = shape[0]
        return torch.arange(n), n
    return O.ref_group_index(shape, axis, group_size)


def build(case):
    """-> x (dtype tensor), gid (group id per element), ngroups, class name per group"""
    dtype = gen.DT[case["dtype"]]
    shape, axis, gs = case["shape"], case["axis"], case["group_size"]
    gid, ng = groups_of(shape, axis, gs)
    g = torch.Generator().manual_seed(case["seed"])
    flat = torch.zeros(gid.numel(), dtype=torch.float64)
    gflat = gid.reshape(-1)
    order = torch.argsort(gflat, stable=True)
    counts = torch.bincount(gflat, minlength=ng)
    names = []
    pos = 0
    cl, mg = case["classes"], case["mags"]
    for k in range(ng):
        n = int(counts[k])
        name = gen.ROW_CLASSES[cl[k % len(cl)]]
        mag = 10.0 ** mg[k % len(mg)]
        names.append(name)
        flat[order[pos : pos + n]] = gen.make_row(name, n, dtype, g, mag)
        pos += n
    x = gen.clamp_finite(flat.reshape(shape), dtype)
    layout = case.get("mem")
    if layout and layout[0] != "contig":
        x = gen.apply_layout(x, tuple(layout))
    return x, gid, ng, names
