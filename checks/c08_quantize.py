"""C08 — quantize() swaps exactly the eligible modules and each quantized module computes its float twin."""
import copy

import torch
import torch.nn.functional as F
from hypothesis import strategies as st

from vlib import gen
from vlib import oracle as O
from vlib.core import Outcome, Raised, cut, drive

from checks import models as M

from optimum.quanto import Calibration, QBytesTensor, QTensor, quantize, quantize_activation, absmax_scale
from optimum.quanto.nn import QConv2d, QLayerNorm, QLinear, QModuleMixin

ACT = {"none": None, "qint8": O.QT8["qint8"], "qfloat8_e4m3fn": O.QT8["qfloat8_e4m3fn"], "qfloat8_e5m2": O.QT8["qfloat8_e5m2"]}
TWIN = {torch.nn.Linear: QLinear, torch.nn.Conv2d: QConv2d, torch.nn.LayerNorm: QLayerNorm}
HP = {
    torch.nn.Linear: ["in_features", "out_features"],
    torch.nn.Conv2d: ["in_channels", "out_channels", "kernel_size", "stride", "padding", "dilation", "groups", "padding_mode", "transposed", "output_padding"],
    torch.nn.LayerNorm: ["normalized_shape", "eps", "elementwise_affine"],
}


# ----------------------------------------------------------------------------- structure

@st.composite
def structure_cases(draw):
    return {
        "tree": M.wrap_root(draw(M.trees())),
        "wq": draw(st.sampled_from(sorted(O.QTALL) + ["none"])),
        "wq_by_name": draw(st.booleans()),
        "aq": draw(st.sampled_from(sorted(ACT))),
        "filter": draw(st.one_of(st.none(), st.lists(st.integers(0, 30), max_size=6))),
        "dtype": draw(gen.dtypes),
        "seed": draw(st.integers(0, 2**16)),
    }


def base_class(m):
    for c in TWIN:
        if isinstance(m, c):
            return c
    return None


def snapshot(model):
    snap = {}
    for name, m in model.named_modules(remove_duplicate=False):
        snap[name] = {
            "obj": m,
            "type": type(m),
            "params": {n: (p.detach().clone(), p.dtype, p.device, p.requires_grad) for n, p in m.named_parameters(recurse=False)},
            "buffers": {n: b.detach().clone() for n, b in m.named_buffers(recurse=False)},
            "hp": {h: getattr(m, h) for c in HP if isinstance(m, c) for h in HP[c]},
            "has_bias": getattr(m, "bias", None) is not None,
        }
    return snap


def exec_structure(case):
    out = Outcome()
    g = torch.Generator().manual_seed(case["seed"])
    dtype = gen.DT[case["dtype"]]
    model = M.build_tree(case["tree"], g).to(dtype)
    wq = O.QTALL.get(case["wq"])
    aq = ACT[case["aq"]]
    # every NAME of every module: a module (or a container) may be registered under several names
    names = [n for n, _ in model.named_modules(remove_duplicate=False)]
    mods = dict(model.named_modules(remove_duplicate=False))
    flt = None
    if case["filter"] is not None:
        flt = [mods[names[i % len(names)]] for i in case["filter"]]
    before = snapshot(model)
    eligible = {n for n, m in mods.items() if n != "" and (isinstance(m, (torch.nn.Linear, torch.nn.Conv2d)) or (isinstance(m, torch.nn.LayerNorm) and aq is not None))}
    if flt is not None:
        eligible = {n for n in eligible if any(mods[n] is f for f in flt)}
    kw = {"weights": case["wq"] if case["wq_by_name"] and wq is not None else wq}
    if wq is None and case["seed"] % 2:
        kw = {}
    if aq is not None:
        kw["activations"] = case["aq"] if case["wq_by_name"] else aq
    if flt is not None:
        # the filter in one of the forms an iterable of modules comes in: a list, a tuple, or a generator expression
        kw["modules"] = [flt, tuple(flt), (m_ for m_ in flt), iter(flt)][case["seed"] % 4]
    r = cut(quantize, model, **kw)
    kinds = sorted({base_class(mods[n]).__name__ for n in eligible})
    depth = max((n.count(".") for n in names), default=0)
    out.klass = [f"eligible-{k}" for k in kinds] + [f"depth{min(depth, 3)}", "filtered" if flt is not None else "unfiltered", f"act-{case['aq']}"]
    out.fingerprint = [case["tree"], case["wq"], case["aq"], case["filter"], case["dtype"]]
    has_inel = any(n not in eligible and n != "" for n in names)
    out.nontrivial = depth >= 1 and has_inel and bool(eligible) and (flt is not None or any(isinstance(mods[n], torch.nn.LayerNorm) for n in names))
    if isinstance(r, Raised):
        which = "+".join(kinds) or "none"
        lnaff = any(isinstance(mods[n], torch.nn.LayerNorm) and not mods[n].elementwise_affine for n in eligible)
        return out.fail(f"structure/quantize-raises:{r.type}/{'layernorm-without-affine' if lnaff else which}", r.text)
    after = dict(model.named_modules(remove_duplicate=False))
    shared = {n for n in names if sum(1 for k in names if mods[k] is mods[n]) > 1}
    if shared:
        out.klass.append("module-under-several-names")
    for n in shared:
        for k in shared:
            if n in after and k in after and (mods[n] is mods[k]) != (after[n] is after[k]):
                out.fail("structure/sharing", f"{n!r} and {k!r} were {'the same module' if mods[n] is mods[k] else 'distinct modules'} before quantize() and are {'the same' if after[n] is after[k] else 'distinct'} afterwards")
    if list(after) != names:
        return out.fail("structure/names", f"named_modules() order/names changed: {names} -> {list(after)}")
    for n in names:
        m0, m1 = before[n]["obj"], after[n]
        if n in eligible:
            base = base_class(m0)
            tag = f"structure/{base.__name__}"
            if m1 is m0:
                out.fail(f"{tag}/not-replaced", f"module {n!r} ({type(m0).__name__}) was not replaced (filter {'given' if flt is not None else 'none'}, activations {case['aq']})")
                continue
            if not isinstance(m1, TWIN[base]) or not isinstance(m1, base) or not isinstance(m1, QModuleMixin):
                out.fail(f"{tag}/twin-class", f"{n!r} replaced by {type(m1).__name__}")
                continue
            want_w = None if base is torch.nn.LayerNorm else wq
            if m1.weight_qtype != want_w or m1.activation_qtype != aq:
                out.fail(f"{tag}/qtypes", f"{n!r}: weight_qtype {m1.weight_qtype} activation_qtype {m1.activation_qtype}, requested {want_w}/{aq}")
            for h, v in before[n]["hp"].items():
                if getattr(m1, h) != v:
                    out.fail(f"{tag}/hyper-parameter/{h}", f"{n!r}: {h} {v!r} -> {getattr(m1, h)!r}")
            newp = dict(m1.named_parameters(recurse=False))
            if set(newp) != set(before[n]["params"]):
                out.fail(f"{tag}/parameters", f"{n!r}: parameters {sorted(before[n]['params'])} -> {sorted(newp)}")
                continue
            for pn, (val, dt, dev, rg) in before[n]["params"].items():
                p = newp[pn]
                if isinstance(p, QTensor) or p.dtype != dt or p.device != dev or not torch.equal(p.detach(), val):
                    out.fail(f"{tag}/parameter-changed/{pn}", f"{n!r}.{pn}: float parameter not preserved bit-for-bit (dtype {dt} -> {p.dtype})")
            if getattr(m1, "name", n) != n and not (n in shared and getattr(m1, "name", n) in names and mods[m1.name] is m0):
                out.fail(f"{tag}/name", f"{n!r} carries name {m1.name!r}")
        else:
            if m1 is not m0:
                out.fail("structure/ineligible-replaced", f"module {n!r} ({type(m0).__name__}) was replaced by {type(m1).__name__} (activations {case['aq']}, filter {'given' if flt is not None else 'none'})")
                continue
            # direct parameters / buffers of untouched modules are bitwise unchanged
            for pn, (val, dt, dev, rg) in before[n]["params"].items():
                p = getattr(m1, pn)
                if p is None or p.dtype != dt or not torch.equal(p.detach(), val):
                    out.fail("structure/ineligible-changed", f"{n!r}.{pn} of an untouched {type(m0).__name__} changed")
            for bn, val in before[n]["buffers"].items():
                if not torch.equal(getattr(m1, bn), val):
                    out.fail("structure/ineligible-changed", f"buffer {n!r}.{bn} changed")
    if case["seed"] % 5 == 1 and not out.failures and eligible and wq is not None:
        # quantize() AGAIN with other settings, after all or some of the modules were frozen: a (frozen) QLinear still is a Linear,
        # every selected module ends up with the settings of the LAST call
        from optimum.quanto import freeze
        qnames = [n for n in names if n in eligible]
        for k_, n in enumerate(qnames):
            if case["seed"] % 2 or k_ % 2 == 0:
                cut(after[n].freeze)
        allq = sorted(O.QTALL)
        wq2 = O.QTALL[allq[(allq.index(case["wq"]) + 1 + case["seed"] % 3) % len(allq)]]
        aq2 = ACT["qint8"] if aq is None else (None if case["seed"] % 3 else aq)
        kw2 = {"weights": wq2}
        if aq2 is not None:
            kw2["activations"] = aq2
        if flt is not None:
            kw2["modules"] = [after[n] for n in names if any(mods[n] is f for f in flt)]
        r = cut(quantize, model, **kw2)
        out.klass.append("quantized-again-after-freeze")
        if isinstance(r, Raised):
            return out.fail(f"structure/quantize-again-raises:{r.type}", r.text)
        again = dict(model.named_modules(remove_duplicate=False))
        for n in qnames:
            m2 = again.get(n)
            base = base_class(mods[n])
            if base is torch.nn.LayerNorm:
                continue  # (a LayerNorm is only replaced when activations are quantized: the second call may leave it as it is)
            if not isinstance(m2, QModuleMixin) or m2.weight_qtype != wq2 or m2.activation_qtype != aq2:
                out.fail(f"structure/{base.__name__}/quantize-again/qtypes", f"{n!r}: after a second quantize(weights={wq2.name}, activations={getattr(aq2, 'name', None)}) following a freeze the module "
                                                                               f"has weight_qtype {getattr(m2, 'weight_qtype', None)} / activation_qtype {getattr(m2, 'activation_qtype', None)}")
                break
    if case["seed"] % 6 == 0 and not out.failures:
        # the model handed to quantize() IS an eligible module: the object the caller holds cannot be replaced in place, so the
        # call either refuses (ValueError) or leaves it alone -- in both cases the module still is what it was and still runs
        hp = [{"t": "linear", "i": 4, "o": 3, "bias": True}, {"t": "conv", "ci": 2, "co": 2, "k": 1, "stride": 1, "padding": 0, "dilation": 1, "groups": 1, "pmode": "zeros", "bias": False},
              {"t": "mylinear", "i": 3, "o": 2, "bias": False}][(case["seed"] // 6) % 3]
        bare = M.build_tree(hp, g).to(dtype)
        was = snapshot(bare)[""]
        r = cut(quantize, bare, **{k_: v_ for k_, v_ in kw.items() if k_ != "modules"})
        out.klass.append("bare-eligible-root")
        if isinstance(r, Raised) and r.type != "ValueError":
            return out.fail(f"structure/bare-root/raises:{r.type}", r.text)
        now = snapshot(bare)[""]
        same = set(now["params"]) == set(was["params"]) and all(now["params"][k_][0].dtype == v_[0].dtype and torch.equal(now["params"][k_][0], v_[0]) for k_, v_ in was["params"].items())
        if not same or now["has_bias"] != was["has_bias"] or len(list(bare.named_modules())) != 1:
            out.fail("structure/bare-root/corrupted", f"quantize() of a model that is itself a {type(bare).__name__} {'raised ValueError and ' if isinstance(r, Raised) else ''}left it with parameters "
                                                      f"{ {k_: (None if getattr(bare, k_, None) is None else tuple(getattr(bare, k_).shape)) for k_ in was['params']} } and children {[n_ for n_, _ in bare.named_children()]}")
    return out


# ----------------------------------------------------------------------------- function

@st.composite
def function_cases(draw):
    kind = draw(st.sampled_from(["linear", "linear", "conv", "conv", "ln"]))
    c = {
        "kind": kind,
        "dtype": draw(gen.dtypes),
        "wq": draw(st.sampled_from(sorted(O.QTALL) + ["none"])),  # "none": only the activations are quantized
        "aq": draw(st.sampled_from(sorted(ACT))),
        "input": draw(st.sampled_from(["float", "float", "q-same", "q-other"])),
        "scales": draw(st.sampled_from(["ones", "drawn", "drawn", "calibrated"])),
        "seed": draw(st.integers(0, 2**20)),
        "batch": draw(st.lists(st.integers(1, 4), min_size=0 if kind == "linear" else 1, max_size=2)),  # () = a single vector
        "mag": draw(st.sampled_from([1.0, 1.0, 0.1, 8.0])),
        # how the float module holds its weight: a plain Parameter, or computed by a parametrization / a pruning mask
        "wform": draw(st.sampled_from(["plain", "plain", "plain", "weight_norm", "prune"])),
    }
    if kind == "linear":
        c["hp"] = {"t": "linear", "i": draw(st.sampled_from([1, 2, 5, 8, 16, 24, 33, 64, 130, 160, 256])), "o": draw(st.integers(1, 9)), "bias": draw(st.booleans())}
    elif kind == "conv":
        c["hp"] = draw(M.conv_hparams())
        c["hw"] = draw(st.integers(3, 7))
    else:
        shape = draw(st.lists(st.integers(1, 6), min_size=1, max_size=2))
        aff = draw(st.booleans())
        # eps matters when the variance of the rows is not large compared with it: small magnitudes and larger eps values
        c["hp"] = {"t": "ln", "shape": shape, "affine": aff, "bias": draw(st.booleans()) if aff else True, "eps": draw(st.sampled_from([1e-5, 1e-5, 1e-3, 1e-1]))}
        c["mag"] = draw(st.sampled_from([1.0, 0.1, 0.03, 0.01, 3e-3, 8.0]))
        if c["aq"] == "none":
            c["aq"] = "qint8"
    return c


def functional64(qm, kind, x64, w64, b64):
    if kind == "linear":
        return F.linear(x64, w64, b64)
    if kind == "conv":
        return torch.nn.Conv2d._conv_forward(qm, x64, w64, b64)
    return F.layer_norm(x64, qm.normalized_shape, w64, b64, qm.eps)


def exec_function(case):
    with M.repeatable_kernels(case["kind"] == "conv"):
        return _exec_function(case)


def _exec_function(case):
    out = Outcome()
    dtype = gen.DT[case["dtype"]]
    g = torch.Generator().manual_seed(case["seed"])
    kind = case["kind"]
    aq, wq = ACT[case["aq"]], O.QTALL.get(case["wq"])
    fm = M.build_tree(case["hp"], g)
    model = torch.nn.Sequential(fm).to(dtype)
    if kind != "ln" and case.get("wform", "plain") != "plain":
        # (applied to the module in its final dtype: the derived weight attribute is what the module computes with)
        if case["wform"] == "weight_norm":
            model[0] = torch.nn.utils.parametrizations.weight_norm(fm)
        else:
            import torch.nn.utils.prune as prune

            torch.manual_seed(case["seed"])
            prune.random_unstructured(fm, name="weight", amount=0.3)
    w_float = None if getattr(fm, "weight", None) is None else model[0].weight.detach().clone()
    if kind == "linear":
        shape = tuple(case["batch"]) + (case["hp"]["i"],)
    elif kind == "conv":
        shape = (case["batch"][0], case["hp"]["ci"], case["hw"], case["hw"])
    else:
        shape = tuple(case["batch"]) + tuple(case["hp"]["shape"])
    x = gen.clamp_finite(torch.randn(shape, generator=g, dtype=torch.float64) * case["mag"], dtype)
    with torch.no_grad():
        fy = cut(model, x)
    out.fingerprint = [kind, case["dtype"], case["wq"], case["aq"], case["input"], case["scales"], case["hp"]]
    hpk = []
    if kind == "conv":
        hp = case["hp"]
        hpk = [f"pmode-{hp['pmode']}", f"groups{hp['groups']}", f"pad-{hp['padding'] if isinstance(hp['padding'], str) else 'num'}", f"dil{hp['dilation']}"]
        out.nontrivial = hp["pmode"] != "zeros" or hp["groups"] > 1 or hp["dilation"] != 1 or hp["padding"] not in (0,) or hp["stride"] != 1
    elif kind == "ln":
        hpk = ["affine" if case["hp"]["affine"] else "no-affine"]
        out.nontrivial = not case["hp"]["affine"] or len(case["hp"]["shape"]) > 1 or not case["hp"]["bias"]
    else:
        out.nontrivial = len(case["batch"]) != 2 or case["hp"]["i"] % 32 != 0 or case["input"] != "float"
    out.klass = [kind, f"w-{case['wq']}", f"act-{case['aq']}", f"in-{case['input']}", f"scales-{case['scales']}", case["dtype"]] + hpk
    if isinstance(fy, Raised):
        out.discard = True  # the float module itself rejects this input (e.g. kernel larger than the image)
        return out
    tag = f"function/{kind}"
    r = cut(quantize, model, weights=wq, activations=aq)
    if isinstance(r, Raised):
        sub = "layernorm-without-affine" if kind == "ln" and not case["hp"]["affine"] else kind
        return out.fail(f"function/quantize-raises:{r.type}/{sub}", r.text)
    qm = model[0]
    if not isinstance(qm, QModuleMixin):
        return out.fail(f"{tag}/not-quantized", type(qm).__name__)
    if w_float is not None and not isinstance(qm.weight, QTensor) and not torch.equal(qm.weight.detach(), w_float):
        out.klass.append(f"wform-{case.get('wform', 'plain')}")
        return out.fail(f"{tag}/float-weight-not-kept", f"the quantized module does not hold the float weight of the module it replaces ({case.get('wform', 'plain')} weight, {case['dtype']})")
    if case["seed"] % 2:
        model.eval()  # inference users put the model in eval mode: nothing here depends on it
        out.klass.append("eval-mode")
    if kind == "ln" and not case["hp"]["affine"]:
        model.to(dtype)  # a module without parameters has no dtype quantize() could read: the user casts it (its scale buffers) afterwards
    # scales
    if aq is not None:
        if case["scales"] == "drawn":
            qm.input_scale = torch.tensor(float(x.abs().max()) / [100.0, 127.0, 40.0][case["seed"] % 3] + 1e-6, dtype=qm.input_scale.dtype)
            qm.output_scale = torch.tensor(max(float(fy.abs().max()), 1e-3) / [90.0, 127.0, 30.0][case["seed"] % 3], dtype=qm.output_scale.dtype)
        elif case["scales"] == "calibrated":
            with torch.no_grad():
                rr = cut(lambda: _calibrate(model, x))
            if isinstance(rr, Raised):
                return out.fail(f"{tag}/calibration-raises:{rr.type}", rr.text)
            if qm.activation_qtype is None:
                aq = None  # calibration streamlining may switch activations off; then the float-output contract applies
    # the module as the caller holds it: the object quantize() worked on, a deep copy, or an unpickled copy (torch.save(model))
    how = case["seed"] % 5
    if how in (1, 2):
        import copy
        import pickle

        cp = cut(lambda: copy.deepcopy(model) if how == 1 else pickle.loads(pickle.dumps(model)))
        if isinstance(cp, Raised):
            return out.fail(f"{tag}/{'deepcopy' if how == 1 else 'pickle'}-raises:{cp.type}", cp.text)
        model = cp
        qm = model[0]
        out.klass.append("deep-copied" if how == 1 else "unpickled")
    # the input the module receives
    inp = x
    if case["input"] != "float":
        iq = O.QT8["qint8"] if case["input"] == "q-same" and aq is None else (aq if case["input"] == "q-same" else None)
        if iq is None:
            iq = O.QT8["qfloat8_e4m3fn"] if (aq is None or aq.name != "qfloat8_e4m3fn") else O.QT8["qint8"]
        s_in = absmax_scale(x, iq)
        s_in = torch.where(s_in > 0, s_in, torch.ones_like(s_in))
        inp = quantize_activation(x, iq, s_in)
    # the autograd mode the caller happens to be in must not matter for the values: no_grad, inference_mode or grad enabled
    gm = ["no_grad", "no_grad", "inference_mode", "grad"][case["seed"] % 4]
    out.klass.append(f"mode-{gm}")
    with {"no_grad": torch.no_grad, "inference_mode": torch.inference_mode, "grad": torch.enable_grad}[gm]():
        y = cut(model, inp)
    if not isinstance(y, Raised):
        y = y.detach()
    if isinstance(y, Raised):
        return out.fail(f"{tag}/forward-raises:{y.type}/{'q-input' if isinstance(inp, QTensor) else 'float-input'}{'' if gm == 'no_grad' else '/' + gm}", f"{y.text} (weights {case['wq']}, activations {case['aq']}, {case['dtype']}, {hpk})")
    # ---- reference
    if kind == "ln":
        w64 = None if qm.weight is None else qm.weight.detach().to(torch.float64)
    else:
        w64 = qm.qweight
        w64 = (w64.dequantize() if isinstance(w64, QTensor) else w64).detach().to(torch.float64)  # (weights not quantized: the weight itself)
    b64 = None if getattr(qm, "bias", None) is None else qm.bias.detach().to(torch.float64)
    if isinstance(inp, QBytesTensor):
        if aq is not None and not (inp.qtype == aq and inp.axis is None):
            x_in = quantize_activation(inp.dequantize(), aq, qm.input_scale.to(dtype)).dequantize()
        else:
            x_in = inp.dequantize()
    elif aq is not None and kind != "ln":
        x_in = quantize_activation(x, aq, qm.input_scale.to(dtype)).dequantize()
    else:
        x_in = x
    x64 = x_in.to(torch.float64)
    raw = functional64(qm, kind, x64, w64, b64)
    u, eta = gen.U[dtype], gen.ETA[dtype]
    if kind == "ln":
        bound = 64 * u * (raw.abs() + 1) + eta
    else:
        K = w64[0].numel()
        mag = functional64(qm, kind, x64.abs(), w64.abs(), None if b64 is None else b64.abs())
        bound = (K + 4) * u * mag + 3 * u * raw.abs() + eta
        if isinstance(inp, QBytesTensor) or (aq is not None):
            qw_ = qm.qweight
            if isinstance(qw_, QBytesTensor) and kind == "linear":
                # documented mechanism: input_scale * weight_scale is formed in the working dtype; when that product is
                # subnormal its absolute error (eta/2) is amplified by the sum of code products (see C07)
                s_in = float(inp._scale.to(torch.float64)) if isinstance(inp, QBytesTensor) and not (aq is not None and not (inp.qtype == aq and inp.axis is None)) else float(qm.input_scale.to(torch.float64))
                sp = abs(s_in) * float(qw_._scale.to(torch.float64).abs().min())
                if sp > 0:
                    bound = bound + 0.0 * (mag / sp) * eta  # (no allowance any more: the scale product is formed in float32, D46)
    if aq is None:
        yd = y.dequantize() if isinstance(y, QTensor) else y
        if yd.dtype != dtype or tuple(yd.shape) != tuple(raw.shape):
            return out.fail(f"{tag}/form", f"output {yd.dtype} {tuple(yd.shape)}; float twin {dtype} {tuple(raw.shape)}")
        fin = raw.abs() + bound < gen.FMAX[dtype]
        bad = fin & ~((yd.to(torch.float64) - raw).abs() <= bound)
        if bool(bad.any()):
            i = int(torch.nonzero(bad.reshape(-1))[0])
            out.fail(f"{tag}/value", f"{int(bad.sum())}/{bad.numel()} outputs differ from the float twin on dequantized weights: {yd.reshape(-1)[i].item()!r} vs {raw.reshape(-1)[i].item()!r} (bound {bound.reshape(-1)[i].item():.3g}; {hpk}, weights {case['wq']}, input {case['input']})")
        return out
    if not isinstance(y, QBytesTensor):
        return out.fail(f"{tag}/output-not-quantized", f"activations {aq.name} but the output is {type(y).__name__}")
    if y.qtype != aq or y.axis is not None or tuple(y.shape) != tuple(raw.shape) or y.dtype != dtype:
        return out.fail(f"{tag}/output-form", f"output {y.qtype.name} axis {y.axis} {tuple(y.shape)} {y.dtype}")
    if not torch.equal(y._scale.to(torch.float64).reshape(()), qm.output_scale.to(torch.float64).reshape(())):
        return out.fail(f"{tag}/output-scale", f"output quantized with scale {y._scale.item()!r}, module output_scale is {qm.output_scale.item()!r} (input_scale {qm.input_scale.item()!r})")
    s = float(qm.output_scale.to(torch.float64))
    G = O.grid(aq)
    qq = raw / s
    c = O.codes64(y)
    _, lo, hi = O.nearest_dist(qq, G)
    target = qq.clamp(G[0], G[-1])
    tol = (hi - lo) + bound / s + 2 * (target.abs() * u + eta)
    bad = ~((c - target).abs() <= tol)
    if bool(bad.any()):
        i = int(torch.nonzero(bad.reshape(-1))[0])
        out.fail(f"{tag}/value-quantized", f"{int(bad.sum())}/{bad.numel()} output codes more than one step from the projection of the float twin: code {c.reshape(-1)[i].item()} vs raw/scale {qq.reshape(-1)[i].item()!r} ({hpk}, weights {case['wq']}, input {case['input']}, scales {case['scales']})")
    return out


def _calibrate(model, x):
    with Calibration(streamline=False):
        model(x)


def _run(strategy, execute):
    def run(ctx):
        drive(ctx, strategy, execute, max(1, int(ctx.params["n"] * ctx.params.get("scale", 1))))

    return run


SUBCHECKS = {
    "structure": {"run": _run(structure_cases(), exec_structure), "execute": exec_structure},
    "function": {"run": _run(function_cases(), exec_function), "execute": exec_function},
}
